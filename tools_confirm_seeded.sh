#!/bin/bash
# usage: tools_confirm_seeded.sh <seeded-id> <agent-worktree>
# Confirms independently of the agent: demo passes on a clean scratch worktree of /repo HEAD, fails with the patch;
# then stores patch.diff, demo.py, meta.json under /verif/seeded/<id>/ and removes the scratch worktree.
set -u
ID=$1; WT=$2
SCR=/tmp/verif-confirm-$ID
git -C /repo worktree remove --force $SCR 2>/dev/null
git -C /repo worktree add -q --detach $SCR HEAD || exit 9
mkdir -p $SCR/_out; sed "s#$WT#$SCR#g" $WT/_out/demo.py > $SCR/demo_confirm.py
( cd $SCR && timeout 600 /venv/bin/python demo_confirm.py > /tmp/confirm-$ID-clean.log 2>&1 ); CLEAN=$?
( cd $SCR && git apply $WT/_out/patch.diff ) || { echo "patch does not apply"; git -C /repo worktree remove --force $SCR; exit 8; }
( cd $SCR && timeout 600 /venv/bin/python demo_confirm.py > /tmp/confirm-$ID-patched.log 2>&1 ); PATCHED=$?
IMPORT=$(cd $SCR && /venv/bin/python -c "import sys; sys.path.insert(0,'$SCR/src'); sys.dont_write_bytecode=True; import CircuitCalculator, CircuitCalculator.dump_load, CircuitCalculator.Circuit.solution, CircuitCalculator.SimpleSimulation.schematic; print('import-ok')" 2>&1 | tail -1)
echo "$ID: demo exit clean=$CLEAN patched=$PATCHED $IMPORT; files: $(cd $SCR && git diff --stat -- src | tail -1)"
git -C /repo worktree remove --force $SCR
if [ $CLEAN -eq 0 ] && [ $PATCHED -ne 0 ]; then
  mkdir -p /verif/seeded/$ID
  cp $WT/_out/patch.diff /verif/seeded/$ID/patch.diff
  sed "s#$WT#/tmp/SCRATCH_WORKTREE#g" $WT/_out/demo.py > /verif/seeded/$ID/demo.py
  cp $WT/_out/meta.json /verif/seeded/$ID/agent_meta.json
  echo "confirmed -> /verif/seeded/$ID"
else
  echo "NOT confirmed"; tail -5 /tmp/confirm-$ID-clean.log; tail -5 /tmp/confirm-$ID-patched.log
fi
