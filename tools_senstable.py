#!/usr/bin/env python3
"""Writes the table of the last complete sensitivity run (out/sensitivity.json) into DESIGN.md section 8.8."""
import json, os, re, datetime
HERE = os.path.dirname(os.path.abspath(__file__))
res = json.load(open(os.path.join(HERE, "out", "sensitivity.json")))
rows = ["| change | source | property | result | first signatures |", "|---|---|---|---|---|"]
for r in res:
    sigs = []
    for l in r["lines"]:
        m = re.search(r'signature=(\[.*?\]) occurrences=(\d+)', l)
        if m:
            s = json.loads(m.group(1))
            sigs.append(f"{s[1]} {s[2]}{('/' + s[3]) if s[3] else ''} {s[4]} ({m.group(2)}x)")
    rows.append(f"| {r['id']} | {r['source']} | {r['property']} | {('silent (benign change)' if r['exit'] == 0 else 'FALSE ALARM') if r.get('expected') == 'pass' else ('caught' if r['caught'] else ('not caught (outside the property as stated, see 8.9)' if r.get('expected') not in (None, 'caught') else 'MISSED'))} | {'; '.join(sigs[:2])} |")
harm = [r for r in res if r.get("expected", "caught") == "caught"]
outside = [r for r in res if r.get("expected") not in (None, "caught", "pass")]
ben = [r for r in res if r.get("expected") == "pass"]
caught = sum(r["caught"] for r in harm)
text = (f"### 8.8 Last complete sensitivity run\n\n{caught}/{len(harm)} harmful changes caught and {sum(r['exit'] == 0 for r in ben)}/{len(ben)} behaviour-preserving changes left silent by the quick tier of their property "
        f"(each VIOLATION was minimised and its replay reproduced in a fresh process)"
        + (f"; {len(outside)} further change(s) need something outside the quantified histories and are listed as not caught" if outside else "") + ".\n\n" + "\n".join(rows) + "\n\n")
p = os.path.join(HERE, "DESIGN.md")
s = open(p).read()
if "### 8.8 Last complete sensitivity run" in s:
    a = s.index("### 8.8 Last complete sensitivity run")
    b = s.index("### 8.9") if "### 8.9" in s else s.index("## Appendix A")
    s = s[:a] + text + s[b:]
else:
    s = s.replace("## Appendix A", text + "## Appendix A", 1)
open(p, "w").write(s)
print(caught, "/", len(res))
