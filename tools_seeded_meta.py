#!/usr/bin/env python3
"""writes /verif/seeded/<id>/meta.json from the agent's own meta (agent_meta.json) plus what was run here"""
import json, sys, os
for d in sys.argv[1:]:
    base = f"/verif/seeded/{d}"
    a = json.load(open(f"{base}/agent_meta.json"))
    old = json.load(open(f"{base}/meta.json")) if os.path.exists(f"{base}/meta.json") else {}
    m = {"property": a["property"], "summary": a.get("summary", ""), "needs": a.get("needs", ""), "files_changed": a.get("files_changed", []),
         "author": "independent sub-agent given only the property text, a theme and a scratch worktree (nothing from /verif)",
         "confirmed_by": "tools_confirm_seeded.sh: demo.py exits 0 on a clean scratch worktree of /repo HEAD and non-zero with patch.diff applied; the package imports",
         "checks_run": "run.py selftest-sensitivity --only " + d + " (see last_check.json)",
         "expected": old.get("expected", "caught"), "note": old.get("note", "")}
    if "detect_with" in old:
        m["detect_with"] = old["detect_with"]
    json.dump(m, open(f"{base}/meta.json", "w"), indent=1)
    print("meta", d)
