#!/usr/bin/env python3
"""Regenerates MANIFEST.json from one table so that it is valid at all times."""
import json, sys

PY = "/venv/bin/python"
BASELINE = "cd /repo && /venv/bin/python -m pytest -ra -q -p no:cacheprovider --timeout=900 --continue-on-collection-errors"

NA = {
 "C01": "pure function of a frozen Network (node_analysis/bias_point_analysis): no schedule, clock, I/O, shared state or fault for a simulator to vary; its history-independence is checked under C20",
 "C02": "pure function of (circuit, w, w_resolution, peak flag); nothing to schedule or fault",
 "C03": "relation between two pure evaluations whose difference (renaming, permutation, other reference node) is an input transformation; hash-order dependence is watched by C20/O4",
 "C04": "algebraic relation (superposition) between pure evaluations; not a behaviour under schedules or faults",
 "C05": "identity over the numbers of one pure evaluation (power balance, signs)",
 "C06": "open_circuit_impedance / Thevenin / Norton are pure functions of (network, port)",
 "C07": "component -> branch dispatch table evaluated per component; pure",
 "C08": "closed-form Fourier coefficients versus integrals of a waveform; mathematics of one input",
 "C09": "frequency merge through a sorted set plus C02 per frequency; pure function of (circuit, w_max, t); laziness of returned time functions is covered by C20 split-phase steps",
 "C10": "pure linear algebra from (network, c_values, l_values) to (A,B,C,D)",
 "C11": "definiteness/boundedness on a caller-supplied time grid; the code reads no clock, has no timer or deadline a discrete-event simulator could own",
 "C12": "numerical truth of one lsim integration on a caller-supplied grid; the solver/input seams are used in C20 as re-entrancy points only",
 "C13": "circuit_translator is a pure function of the final element list; placement order/rotation are input transformations, a drawing program is data not a schedule",
 "C14": "label text is a pure function of (final drawing, solution kind, display options)",
 "C16": "each simplification is a pure Network -> Network function; its 'input never modified' clause is monitored inside C20 (O2)",
 "C18": "pure string formatting of (value, precision, options)",
 "C19": "acceptance/rejection is a pure function of a malformed input; 'fault at every position' is input mutation, not an environment fault",
}

CLAIMS = {}   # filled in as checks come into existence; see bottom

def check(pid, text, note, technique, ref):
    return {
        "property_id": pid,
        "quick_cmd": f"{PY} /verif/run.py check {pid} --tier quick",
        "thorough_cmd": f"{PY} /verif/run.py check {pid} --tier thorough",
        "evidence_file": f"/verif/evidence/{pid}.json",
        "replay_cmd_template": f"{PY} /verif/run.py replay {{path}}",
        "engine": "detsim",
        "level_claimed": {"category": "exploration", "text": text, "design_ref": ref},
        "level_note": note,
        "technique": technique,
    }

def main():
    import importlib.util, os
    claims = {}
    p = os.path.join(os.path.dirname(__file__), "manifest_claims.json")
    if os.path.exists(p):
        claims = json.load(open(p))
    na = dict(NA)
    for pid in ("C15", "C17", "C20"):
        if pid not in claims:
            na[pid] = "simulation target (see DESIGN.md section 4); check under construction, not claimed until it exists and is green"
    m = {
        "version": 1,
        "setup_cmd": f"{PY} /verif/run.py setup",
        "hooks": {
            "guard": "CIRCUITCALCULATOR_VERIF",
            "enable": "no hook is compiled into /repo: checks put /repo/src first on sys.path, install a dispatching file-system layer (builtins.open, os.*, fcntl) in their own process before the library is imported, and set the module attribute `id` of library modules at run time",
            "baseline_off_cmd": BASELINE,
            "source_commits": [],
            "add_only": True,
        },
        "engines": [{
            "name": "detsim", "path": "/verif/sim",
            "serves_properties": sorted(claims),
            "kind_free_text": "seeded deterministic simulator: multi-client call histories over a shared object pool, re-entrant seam callbacks, simulated raw file device, settrace interrupts, forked pristine-process isolation oracle, ddmin shrinker, JSON replay",
        }],
        "checks": [check(pid, **claims[pid]) for pid in sorted(claims)],
        "not_applicable": [{"property_id": k, "reason": v} for k, v in sorted(na.items())],
        "notes": "Technique family: deterministic simulation with fault injection. See DESIGN.md.",
    }
    json.dump(m, open(os.path.join(os.path.dirname(__file__), "MANIFEST.json"), "w"), indent=1)
    print("MANIFEST.json written:", len(m["checks"]), "checks,", len(m["not_applicable"]), "not applicable")

if __name__ == "__main__":
    main()
