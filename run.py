#!/venv/bin/python
"""Entry point of the deterministic-simulation checks.  See DESIGN.md section 6.

  run.py setup
  run.py check <C15|C17|C20> [--tier quick|thorough]
  run.py replay <file>
  run.py one <prop> <seed-index>          (debug: one run, verbose)
  run.py selftest-determinism [--prop P] [--n N]
  run.py selftest-sensitivity [--prop P]
"""
import os
import sys

# environment that must be fixed before anything heavy is imported
for _k in ("OPENBLAS_NUM_THREADS", "OMP_NUM_THREADS", "MKL_NUM_THREADS"):
    os.environ.setdefault(_k, "1")
os.environ.setdefault("MPLBACKEND", "Agg")
if os.environ.get("PYTHONHASHSEED") is None:
    # one fixed hash seed for the driver; batches get theirs explicitly
    os.environ["PYTHONHASHSEED"] = "0"
    os.execv(sys.executable, [sys.executable] + sys.argv)

sys.dont_write_bytecode = True
HERE = os.path.dirname(os.path.abspath(__file__))
sys.path.insert(0, HERE)

from sim import cli  # noqa: E402

if __name__ == "__main__":
    sys.exit(cli.main(sys.argv[1:]))
