#!/venv/bin/python
"""Measures how many `line` events of library code each operation kind executes (percentiles), so that the
generators can place interrupt@k uniformly INSIDE calls instead of mostly in their first lines.
Writes sim/linecounts.json.  Deterministic for a given tree; re-run after large library changes."""
import sys, os, json, collections
os.environ.setdefault("PYTHONHASHSEED", "0")
sys.path.insert(0, os.path.dirname(os.path.abspath(__file__)))
from sim import cli, seed, isolate, engine

out = {}
for prop, n in (("C20", 150), ("C17", 150), ("C15", 60)):
    cli.load_ops(prop)
    counts = collections.defaultdict(list)
    for i in range(n):
        plan = cli.gen_plan(prop, seed.run_seed(0, "", prop, i), {"fault_mode": "none"})
        for s in engine.index_steps(plan).values():
            s.pop("fault", None)
            if not s.get("nested"):
                s["fault"] = {"kind": "interrupt", "k": 10 ** 9}
        res = isolate.execute(plan, want_refs=False)
        idx = engine.index_steps(plan)
        for r in res["records"]:
            it = r.get("interrupt")
            if it and r["status"] in ("ok", "exc"):
                a = idx[r["id"]].get("a", {})
                key = r["op"] + "|" + str(a.get("f") or a.get("q") or "")
                counts[key].append(it["lines"])
    for k, v in counts.items():
        v.sort()
        out[k] = [v[len(v) // 2], v[int(len(v) * 0.9)], v[-1]]
json.dump(dict(sorted(out.items())), open(os.path.join(os.path.dirname(os.path.abspath(__file__)), "sim", "linecounts.json"), "w"), indent=0)
print(len(out), "op kinds measured")
