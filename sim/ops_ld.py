"""Loader / serialisation operations (C17 steps; also part of C20's operation set) and the
independent reference model used by O5."""
import json
import math

from .engine import op
from . import canon as C

MODEL_TOL = 1e-12


def _mods():
    from CircuitCalculator.Network import loaders as nl
    from CircuitCalculator import dump_load as dl
    from CircuitCalculator.Circuit import dump_load as cdl
    return nl, dl, cdl


# =========================================================================== the model
class ModelRaises(Exception):
    """the model says: this input must be rejected (any exception is acceptable)"""


class Approx(complex):
    """a number the model obtained through cos/sin (polar notation): compared with a tolerance; everything
    else in a document must come back exactly (JSON and YAML both reproduce binary64 exactly)"""


def m_complex(z, degree=False):
    """Cartesian and polar (radian or degree) notations denote the same number."""
    if isinstance(z, dict) and "real" in z and "imag" in z:
        return complex(z["real"], z["imag"])
    if isinstance(z, dict) and "abs" in z and "phase" in z:
        if z["abs"] < 0:
            # a negative magnitude is not a polar notation in the usual sense: whether a loader reads it as a phase
            # shift by pi (the pinned one does) or rejects it is not what C17 states - no verdict, as in m_undictify
            raise ModelRaises("negative magnitude")
        ph = z["phase"] * math.pi / 180 if degree else z["phase"]
        return Approx(z["abs"] * math.cos(ph), z["abs"] * math.sin(ph))
    raise ModelRaises("not a complex notation")


def m_undictify(v):
    """document as parsed -> document with every complex notation replaced by the number"""
    if isinstance(v, dict):
        ks = sorted(v.keys())
        if ks == ["imag", "real"]:
            return complex(v["real"], v["imag"])
        if ks == ["abs", "phase"]:
            if v["abs"] < 0:
                raise ModelRaises("negative abs")
            return Approx(v["abs"] * math.cos(v["phase"]), v["abs"] * math.sin(v["phase"]))
        if ks == ["abs", "phase_deg"]:
            if v["abs"] < 0:
                raise ModelRaises("negative abs")
            ph = v["phase_deg"] * math.pi / 180
            return Approx(v["abs"] * math.cos(ph), v["abs"] * math.sin(ph))
        return {k: m_undictify(x) for k, x in v.items()}
    if isinstance(v, list):
        return [m_undictify(x) for x in v]
    return v


NET_KINDS = {
    # kind -> (defining quantities as function of the entry)  ; values are (attr, expected)
    "resistor": lambda e: {"Z": e["R"], "V": 0},
    "conductor": lambda e: {"Y": e["G"], "I": 0},
    "impedance": lambda e: {"Z": m_complex(e["Z"]), "V": 0},
    "admittance": lambda e: {"Y": m_complex(e["Y"]), "I": 0},
    "linear_current_source": lambda e: {"I": m_complex(e["I"]), "Y": m_complex(e["Y"])},
    "current_source": lambda e: {"I": m_complex(e["I"]), "Y": e.get("Y", 0)},
    "real_current_source": lambda e: {"I": e["I"], "Y": e.get("Y", 0)},
    "linear_voltage_source": lambda e: {"V": m_complex(e["V"]), "Z": m_complex(e["Z"])},
    "voltage_source": lambda e: {"V": m_complex(e["V"]), "Z": e.get("Z", 0)},
    "real_voltage_source": lambda e: {"V": e["V"], "Z": e.get("Z", 0)},
    "short_circuit": lambda e: {"Z": 0, "V": 0},
    "open_circuit": lambda e: {"Y": 0, "I": 0},
}

CIR_KINDS = {
    "resistor": lambda v: {"R": v["R"]},
    "conductance": lambda v: {"G": v["G"]},
    "impedance": lambda v: {"R": complex(v["Z"]).real, "X": complex(v["Z"]).imag},
    "admittance": lambda v: {"G": complex(v["Y"]).real, "B": complex(v["Y"]).imag},
    "dc_voltage_source": lambda v: {"V": v["V"], "R": v.get("R", 0), "w": 0, "phi": 0},
    "ac_voltage_source": lambda v: {"V": v["V"], "R": v.get("R", 0), "w": v.get("w", 0), "phi": v.get("phi", 0)},
    "complex_voltage_source": lambda v: {"V_real": complex(v["V"]).real, "V_imag": complex(v["V"]).imag,
                                         "R": complex(v.get("Z", 0)).real, "X": complex(v.get("Z", 0)).imag},
    "dc_current_source": lambda v: {"I": v["I"], "G": v.get("G", 0), "w": 0, "phi": 0},
    "ac_current_source": lambda v: {"I": v["I"], "G": v.get("G", 0), "w": v.get("w", 0), "phi": v.get("phi", 0)},
    "complex_current_source": lambda v: {"I_real": complex(v["I"]).real, "I_imag": complex(v["I"]).imag,
                                         "G": complex(v.get("Y", 0)).real, "B": complex(v.get("Y", 0)).imag},
}


def _agree(got, exp):
    """what came through cos/sin is compared with a tolerance, everything else must be the given number exactly"""
    if isinstance(exp, Approx):
        return _close(got, exp)
    try:
        return _exact(got, exp)
    except (TypeError, ValueError):
        return got == exp


def _close(a, b, tol=MODEL_TOL):
    try:
        ca, cb = complex(a), complex(b)
    except Exception:
        return a == b
    if ca == cb:
        return True
    for p, q in ((ca.real, cb.real), (ca.imag, cb.imag)):
        if math.isnan(p) or math.isnan(q):
            if not (math.isnan(p) and math.isnan(q)):
                return False
        elif math.isinf(p) or math.isinf(q):
            if p != q:
                return False
        elif abs(p - q) > tol * max(abs(ca.real), abs(ca.imag), abs(cb.real), abs(cb.imag), 1e-300):
            return False
    return True


def _pynum(x):
    """numpy scalars are numbers like any other: np.int64(5) is the number 5 (compared by value, exactly)"""
    import numpy as np
    if isinstance(x, np.bool_):
        return bool(x)
    if isinstance(x, np.integer):
        return int(x)
    if isinstance(x, np.floating):
        return float(x)              # exact for float16/32/64
    if isinstance(x, np.complexfloating):
        return complex(x)
    return x


def _exact(a, b):
    """the same number in every real part, exactly (1 == 1.0 and 0.0 == -0.0 are accepted)"""
    a, b = _pynum(a), _pynum(b)
    if isinstance(a, int) and isinstance(b, int):
        return a == b               # integers beyond 2**53 must not be compared through floats
    if isinstance(a, int) != isinstance(b, int) and not isinstance(a, complex) and not isinstance(b, complex):
        try:
            if int(a) != int(b) or float(a) != float(b):
                return False
        except (OverflowError, ValueError):
            return False
    ca, cb = complex(a), complex(b)
    for p, q in ((ca.real, cb.real), (ca.imag, cb.imag)):
        if math.isnan(p) and math.isnan(q):
            continue
        if p != q:               # 0.0 and -0.0 are the same number (a loader may build z as re + 1j*im)
            return False
    return True


def _same_doc(got, exp, path="$"):
    """structural equality with complex leaves compared by value (1 == 1.0, 1+0j == 1)"""
    if isinstance(exp, dict):
        if not isinstance(got, dict):
            return f"{path}: expected dict, got {type(got).__name__}"
        if sorted(got.keys(), key=str) != sorted(exp.keys(), key=str):
            return f"{path}: keys {sorted(got.keys(), key=str)} != {sorted(exp.keys(), key=str)}"
        for k in exp:
            d = _same_doc(got[k], exp[k], f"{path}.{k}")
            if d:
                return d
        return None
    if isinstance(exp, list):
        if not isinstance(got, list) or len(got) != len(exp):
            return f"{path}: expected list of {len(exp)}, got {type(got).__name__}" + (f" of {len(got)}" if isinstance(got, list) else "")
        for i, (g, e) in enumerate(zip(got, exp)):
            d = _same_doc(g, e, f"{path}[{i}]")
            if d:
                return d
        return None
    if isinstance(exp, bool) or exp is None or isinstance(exp, str):
        return None if (got == exp and type(got) == type(exp)) else f"{path}: {got!r} != {exp!r}"
    if isinstance(exp, (int, float, complex)):
        got = _pynum(got)
        if isinstance(got, bool) or not isinstance(got, (int, float, complex)):
            return f"{path}: {got!r} is not the number {exp!r}"
        if isinstance(exp, Approx):
            return None if _close(got, exp) else f"{path}: {got!r} != {exp!r}"
        return None if _exact(got, exp) else f"{path}: {got!r} != {exp!r} (exactly)"
    if _pynum(exp) is not exp:
        return _same_doc(got, _pynum(exp), path)       # the description held a numpy scalar: the same rules by value
    return None if got == exp else f"{path}: {got!r} != {exp!r}"


def _fresh(ctx, ref):
    """a fresh copy of the description a step was given, built from its recipe (the model never
    looks at the shared object, which a defective loader may have edited)"""
    from . import world
    if isinstance(ref, dict) and "p" in ref:
        return world.build_one(ref["p"], ctx.plan["recipes"][ref["p"]], {})
    return C.dec(ref)


def _unjudged(rec, res):
    """the model has no expectation for this input (malformed description, unknown format, negative magnitude):
    C17 speaks about what well-formed descriptions load into, not about what must be rejected (that is C19)"""
    if not isinstance(res, BaseException):
        rec["discarded"] = "malformed-input-accepted-unjudged"
    return None


def _viol(kind, detail):
    return ["violation", kind, str(detail)[:300]]


# =========================================================================== network loader
def model_load_network(ctx, a, res, rec):
    desc = _fresh(ctx, a["desc"])
    try:
        exp = []
        for e in desc:
            q = NET_KINDS[e["type"]](e)
            exp.append((e["N1"], e["N2"], e["id"], q))
        ids = [x[2] for x in exp]
        labels = {x[0] for x in exp} | {x[1] for x in exp}
        if len(set(ids)) != len(ids) or (exp and "0" not in labels):
            raise ModelRaises("network constraints")
    except (ModelRaises, KeyError, TypeError):
        return _unjudged(rec, res)
    if isinstance(res, BaseException):
        return _viol("load-failed", f"well-formed description raised {type(res).__name__}")
    try:
        if len(res.branches) != len(exp):
            return _viol("wrong-branch-count", f"{len(res.branches)} != {len(exp)}")
        by_id = {b.id: b for b in res.branches}          # C17 does not state an order of the branches
        for (n1, n2, i, q) in exp:
            b = by_id.get(i)
            if b is None:
                return _viol("wrong-identity", f"no branch with id {i!r} (got {sorted(map(str, by_id))})")
            if (b.node1, b.node2, b.id) != (n1, n2, i):
                return _viol("wrong-identity", f"{(b.node1, b.node2, b.id)} != {(n1, n2, i)}")
            for attr, v in q.items():
                got = getattr(b.element, attr)
                if not _agree(got, v):
                    return _viol("wrong-value", f"{i}.{attr}: {got!r} != {v!r}")
    except (AttributeError, TypeError) as e:
        # the loader returned something that is not a network of branches with elements
        return _viol("wrong-type", f"{type(res).__name__}: {type(e).__name__}: {e}")
    return None


@op("ld.load_network", model=model_load_network, handle=True, snap=True)
def ld_load_network(ctx, a, seam):
    nl, dl, cdl = _mods()
    return nl.load_network(ctx.arg(a["desc"]))


def model_to_complex(ctx, a, res, rec):
    z = _fresh(ctx, a["z"])
    try:
        exp = m_complex(z, a.get("degree", False))
    except (ModelRaises, KeyError, TypeError):
        return _unjudged(rec, res)
    if isinstance(res, BaseException):
        return _viol("load-failed", f"to_complex({z}, degree={a.get('degree', False)}) raised {type(res).__name__}")
    if not _agree(res, exp):
        return _viol("wrong-value", f"to_complex({z}, degree={a.get('degree', False)}) = {res!r}, expected {exp!r}")
    return None


@op("ld.to_complex", model=model_to_complex)
def ld_to_complex(ctx, a, seam):
    nl, dl, cdl = _mods()
    z = ctx.arg(a["z"])
    if "degree" in a:
        return nl.to_complex(z, degree=a["degree"])
    return nl.to_complex(z)


# =========================================================================== circuit loader
def _model_component(e):
    if "id" not in e or "value" not in e or "type" not in e or "nodes" not in e:
        raise ModelRaises("incomplete")
    if e["type"] not in CIR_KINDS:
        raise ModelRaises("unknown kind")
    try:
        val = CIR_KINDS[e["type"]](e["value"])
    except (KeyError, TypeError, AttributeError):
        raise ModelRaises("bad value")
    return (e["type"], e["id"], list(e["nodes"]), val)


def _check_component(c, exp):
    t, i, nodes, val = exp
    try:
        ident = (c.type, c.id, list(c.nodes))
        value = dict(c.value)
    except (AttributeError, TypeError) as e:
        return _viol("wrong-type", f"{type(c).__name__}: {type(e).__name__}: {e}")
    if ident != (t, i, nodes):
        return _viol("wrong-identity", f"{ident} != {(t, i, nodes)}")
    # the documented value of the kind must be there, exactly; additional derived entries are not forbidden by C17
    d = _same_doc({k: v for k, v in value.items() if k in val}, val, f"{i}.value")
    if d:
        return _viol("wrong-value", d)
    return None


def model_gen_component(ctx, a, res, rec):
    e = _fresh(ctx, a["entry"])
    try:
        exp = _model_component(e)
    except ModelRaises:
        return _unjudged(rec, res)
    if isinstance(res, BaseException):
        if isinstance(res, ValueError):             # constructors reject negative R/G/w by contract
            return None
        return _viol("load-failed", f"well-formed component entry raised {type(res).__name__}")
    return _check_component(res, exp)


@op("ld.gen_component", model=model_gen_component)
def ld_gen_component(ctx, a, seam):
    nl, dl, cdl = _mods()
    return cdl.generate_component(ctx.arg(a["entry"]))


def model_undictify_circuit(ctx, a, res, rec):
    doc = _fresh(ctx, a["doc"])
    try:
        exps = [_model_component(e) for e in doc["components"]]
        ids = [x[1] for x in exps]
        if len(set(ids)) != len(ids):
            raise ModelRaises("duplicate ids")
    except (ModelRaises, KeyError, TypeError):
        return _unjudged(rec, res)
    if isinstance(res, BaseException):
        if isinstance(res, ValueError) or type(res).__name__ == "MultipleGroundNodes":
            return None
        return _viol("load-failed", f"well-formed circuit description raised {type(res).__name__}")
    if not hasattr(res, "components"):
        return _viol("wrong-type", f"{type(res).__name__} is not a circuit")
    if len(res.components) != len(exps):
        return _viol("wrong-component-count", f"{len(res.components)} != {len(exps)}")
    try:
        by_id = {c.id: c for c in res.components}       # C17 does not state an order of the components
    except (AttributeError, TypeError) as e:
        return _viol("wrong-type", f"{type(e).__name__}: {e}")
    for e in exps:
        c = by_id.get(e[1])
        if c is None:
            return _viol("wrong-identity", f"no component with id {e[1]!r}")
        v = _check_component(c, e)
        if v:
            return v
    return None


@op("ld.undictify_circuit", model=model_undictify_circuit, handle=True, snap=True)
def ld_undictify_circuit(ctx, a, seam):
    nl, dl, cdl = _mods()
    return cdl.undictify_circuit(ctx.arg(a["doc"]))


@op("cdl.serialize", handle=True)
def cdl_serialize(ctx, a, seam):
    nl, dl, cdl = _mods()
    return _Text(cdl.serialize(ctx.arg(a["cir"]), a["fmt"]))


@op("cdl.deserialize", handle=True, snap=True)
def cdl_deserialize(ctx, a, seam):
    nl, dl, cdl = _mods()
    return cdl.deserialize(ctx.arg(a["text"]).s, a["fmt"])


# =========================================================================== generic documents
class _Text:
    """a serialised text kept as a handle (canonical form is the text itself)"""
    def __init__(self, s):
        self.s = s

    def _verif_canon(self):
        return ["text", self.s]


def model_undictify_all(ctx, a, res, rec):
    _set_doc_origin(ctx, rec, _origin(ctx, a["doc"]))
    doc = _fresh(ctx, a["doc"])
    try:
        exp = m_undictify(doc)
    except ModelRaises:
        return _unjudged(rec, res)
    if isinstance(res, BaseException):
        return _viol("load-failed", f"undictify of a well-formed document raised {type(res).__name__}")
    d = _same_doc(res, exp)
    return _viol("wrong-value", d) if d else None


@op("ld.undictify_all", model=model_undictify_all, handle="value")
def ld_undictify_all(ctx, a, seam):
    nl, dl, cdl = _mods()
    return dl.undictify_all_complex_values(ctx.arg(a["doc"]))


@op("ld.dictify_all")
def ld_dictify_all(ctx, a, seam):
    nl, dl, cdl = _mods()
    return dl.dictify_all_complex_values(ctx.arg(a["doc"]))


def _m_dictify(v):
    if isinstance(v, complex):
        return {"real": v.real, "imag": v.imag}
    if isinstance(v, dict):
        return {k: _m_dictify(x) for k, x in v.items()}
    if isinstance(v, list):
        return [_m_dictify(x) for x in v]
    return v


def _is_note(v):
    return isinstance(v, dict) and sorted(v.keys()) in (["imag", "real"], ["abs", "phase"], ["abs", "phase_deg"])


def model_undictify_flat(ctx, a, res, rec):
    doc = _fresh(ctx, a["doc"])
    try:
        exp = {k: (m_undictify(v) if _is_note(v) else v) for k, v in doc.items()}
    except ModelRaises:
        return _unjudged(rec, res)
    if isinstance(res, BaseException):
        try:
            m_undictify(doc)
        except ModelRaises:
            # a helper that looks deeper than one level (which C17 does not forbid) meets a malformed notation there
            return _unjudged(rec, res)
        return _viol("load-failed", f"undictify_complex_values of a well-formed dictionary raised {type(res).__name__}")
    d = _same_doc(res, exp)
    if d:
        # C17 does not say that the one-level helper must NOT look deeper: the recursive answer is as good
        try:
            if _same_doc(res, m_undictify(doc)) is None:
                return None
        except ModelRaises:
            pass
    return _viol("wrong-value", d) if d else None


@op("ld.undictify_flat", model=model_undictify_flat)
def ld_undictify_flat(ctx, a, seam):
    nl, dl, cdl = _mods()
    return dl.undictify_complex_values(ctx.arg(a["doc"]))


def model_dictify_flat(ctx, a, res, rec):
    doc = _fresh(ctx, a["doc"])
    exp = {k: ({"real": v.real, "imag": v.imag} if isinstance(v, complex) else v) for k, v in doc.items()}
    if isinstance(res, BaseException):
        return _viol("serialize-failed", f"dictify_complex_values raised {type(res).__name__}")
    d = _same_doc(res, exp)
    if d and _same_doc(res, _m_dictify(doc)) is None:
        return None                 # the recursive conversion is as good as the one-level one
    return _viol("wrong-value", d) if d else None


@op("ld.dictify_flat", model=model_dictify_flat)
def ld_dictify_flat(ctx, a, seam):
    nl, dl, cdl = _mods()
    return dl.dictify_complex_values(ctx.arg(a["doc"]))


def _origin(ctx, ref):
    """the recipe a document (pool object or loaded handle) goes back to"""
    if isinstance(ref, dict) and "p" in ref:
        return ref
    if isinstance(ref, dict) and "h" in ref:
        return ctx.model_state.get("doc_origin", {}).get(ref["h"])
    return None


def _set_doc_origin(ctx, rec, origin):
    if origin is not None:
        ctx.model_state.setdefault("doc_origin", {})[rec["id"]] = origin


def model_serialize(ctx, a, res, rec):
    _set_doc_origin(ctx, rec, _origin(ctx, a["doc"]))
    if a["fmt"] not in ("json", "yaml", "yml"):
        return _unjudged(rec, res)
    if isinstance(res, BaseException):
        return _viol("serialize-failed", f"serialize(doc, {a['fmt']!r}) raised {type(res).__name__}")
    return None


@op("ld.serialize", handle=True, seam="dict_processor", model=model_serialize)
def ld_serialize(ctx, a, seam):
    nl, dl, cdl = _mods()
    doc = ctx.arg(a["doc"])
    if seam.used:
        return _Text(dl.serialize(doc, a["fmt"], dict_processor=seam.wrap(dl.dictify_all_complex_values)))
    return _Text(dl.serialize(doc, a["fmt"]))


def model_deserialize(ctx, a, res, rec):
    """deserialize(serialize(doc, fmt), fmt) == doc ; for foreign texts: == model_undictify(parsed)"""
    if a["fmt"] not in ("json", "yaml", "yml"):
        return _unjudged(rec, res)
    origin = a.get("expect") or (_origin(ctx, a["text"]) if isinstance(a["text"], dict) and "h" in a["text"] else None)
    _set_doc_origin(ctx, rec, origin)
    if origin is None:
        return None
    doc = _fresh(ctx, origin)
    try:
        exp = m_undictify(doc)
    except ModelRaises:
        return _unjudged(rec, res)
    if isinstance(res, BaseException):
        return _viol("roundtrip-failed", f"deserialize raised {type(res).__name__}")
    d = _same_doc(res, exp)
    return _viol("roundtrip-differs", d) if d else None


@op("ld.deserialize", seam="dict_preprocessor", model=model_deserialize, handle="value")
def ld_deserialize(ctx, a, seam):
    nl, dl, cdl = _mods()
    src = a["text"]
    text = ctx.arg(src).s if isinstance(src, dict) and "h" in src else _foreign_text(ctx, a)
    if seam.used:
        return dl.deserialize(text, a["fmt"], dict_preprocessor=seam.wrap(dl.undictify_all_complex_values))
    return dl.deserialize(text, a["fmt"])


def _plain(v):
    """plain dict/list copy (the foreign writer is not the library: it writes ordinary text)"""
    if isinstance(v, dict):
        return {k: _plain(x) for k, x in v.items()}
    if isinstance(v, list):
        return [_plain(x) for x in v]
    return v


def _foreign_text(ctx, a):
    """text written by somebody else (the harness): json.dumps / yaml.safe_dump of a notation-form document"""
    doc = _plain(_fresh(ctx, a["text"]["foreign"]))
    if a["fmt"] == "json":
        return json.dumps(doc, ensure_ascii=a.get("ascii", False))
    import yaml
    return yaml.safe_dump(doc, allow_unicode=True)


# =========================================================================== files
def model_dump(ctx, a, res, rec):
    origin = _origin(ctx, a["doc"])
    if origin is not None:
        ctx.model_state.setdefault("dumps", {})[rec["id"]] = {"doc": origin, "path": a["path"]}
    return None


def _path(a):
    """str or pathlib.Path, as the caller pleases"""
    if a.get("as_path"):
        from pathlib import Path
        return Path(a["path"])
    return a["path"]


@op("ld.dump", writes="path", seam="dump_fcn", model=model_dump)
def ld_dump(ctx, a, seam):
    nl, dl, cdl = _mods()
    doc = ctx.arg(a["doc"])
    if seam.used:
        return dl.dump(_path(a), doc, dump_fcn=seam.wrap(dl.serialize))
    return dl.dump(_path(a), doc)


def _expected_from_store(ctx, rec):
    saw = rec.get("saw")
    if not saw or saw[0] != "ack":
        return None
    d = ctx.model_state.get("dumps", {}).get(saw[1])
    if d is None:
        f = ctx.model_state.get("puts", {}).get(saw[1])
        return f
    return d


def _judge_unacknowledged(ctx, a, res, rec):
    """a JSON file whose last dump failed or was interrupted: the load may raise, but a document it does return was
    written there (the last acknowledged one or one a writer since then tried to write) - "loading describes exactly
    what was written".  Only for JSON documents with a container at the root (a cut-off JSON container never parses,
    so the pinned write-in-place-after-truncation dump satisfies this by construction; a cut-off YAML document or a
    cut-off bare number does parse, and nothing is said about those).  No verdict when writers overlapped, the file
    was removed, or a candidate is unknown or malformed."""
    from . import engine
    cands = rec.get("saw_cands")
    if not cands or isinstance(res, BaseException) or not a["path"].endswith(".json"):
        return None
    idx = ctx.model_state.get("step_index")
    if idx is None:
        idx = ctx.model_state["step_index"] = engine.index_steps(ctx.plan)
    exps = []
    for c in cands:
        s = idx.get(c)
        if s is None or s["op"] not in ("ld.dump", "fs.put"):
            return None
        o = _origin(ctx, s["a"]["doc"])
        if o is None:
            return None
        try:
            fresh = _fresh(ctx, o)
            if not isinstance(fresh, (dict, list)):
                return None
            exps.append((o, m_undictify(fresh)))
        except ModelRaises:
            return None
    ctx.probe("load_after_failed_dump_returned_a_document")
    diffs = []
    for o, e in exps:
        d = _same_doc(res, e)
        if not d:
            _set_doc_origin(ctx, rec, o)
            return None
        diffs.append(str(d))
    return _viol("load-after-failed-dump-neither-old-nor-new", " | ".join(diffs)[:400])


def model_load(ctx, a, res, rec):
    """acknowledged dump then load returns the document; under a read fault: raise or exactly it"""
    src = _expected_from_store(ctx, rec)
    if src is None:
        return _judge_unacknowledged(ctx, a, res, rec)
    _set_doc_origin(ctx, rec, src["doc"])
    fmt = a["path"].rsplit(".", 1)[-1]
    if fmt not in ("json", "yaml", "yml"):
        return _unjudged(rec, res)
    try:
        exp = m_undictify(_fresh(ctx, src["doc"]))
    except ModelRaises:
        return _unjudged(rec, res)
    faulted = rec.get("io_fault", {}).get("fired") and rec["io_fault"]["kind"] in ("read-eio", "open-fail")
    if isinstance(res, BaseException):
        if faulted:
            return None
        return _viol("load-failed", f"load of an acknowledged file raised {type(res).__name__}")
    d = _same_doc(res, exp)
    return _viol("load-differs", d) if d else None


@op("ld.load", reads="path", seam="deserialize_fcn", model=model_load, handle="value")
def ld_load(ctx, a, seam):
    nl, dl, cdl = _mods()
    if seam.used:
        return dl.load(_path(a), deserialize_fcn=seam.wrap(dl.deserialize))
    return dl.load(_path(a))


def model_put(ctx, a, res, rec):
    ctx.model_state.setdefault("puts", {})[rec["id"]] = {"doc": a["doc"], "path": a["path"]}
    return None


@op("fs.put", model=model_put)
def fs_put(ctx, a, seam):
    """a foreign writer (not the library) stores a document as JSON text on the simulated device"""
    doc = _plain(_fresh(ctx, a["doc"]))
    data = json.dumps(doc, ensure_ascii=a.get("ascii", False), indent=a.get("indent")).encode("utf-8")
    ctx.disk.files[a["path"]] = bytearray(data)
    ctx.disk.touch(a["path"])
    ctx.disk.state[a["path"]] = ("ack", ctx.disk.step)
    return len(data)


def model_load_net_json(ctx, a, res, rec):
    src = _expected_from_store(ctx, rec)
    if src is None:
        return None
    faulted = rec.get("io_fault", {}).get("fired") and rec["io_fault"]["kind"] in ("read-eio", "open-fail")
    if faulted and isinstance(res, BaseException):
        return None
    return model_load_network(ctx, {"desc": src["doc"]}, res, rec)


@op("ld.load_net_json", reads="path", model=model_load_net_json, handle=True, snap=True)
def ld_load_net_json(ctx, a, seam):
    nl, dl, cdl = _mods()
    return nl.load_network_from_json(a["path"])


@op("cdl.save", writes="path")
def cdl_save(ctx, a, seam):
    nl, dl, cdl = _mods()
    return cdl.save(a["path"], ctx.arg(a["cir"]))


@op("cdl.load", reads="path", handle=True, snap=True)
def cdl_load(ctx, a, seam):
    nl, dl, cdl = _mods()
    return cdl.load(a["path"])
