"""Sensitivity self-test: break the property on purpose in a scratch copy of /repo/src, aim the
quick check at the copy (VERIF_REPO_SRC) and expect a reproducible VIOLATION; then delete the copy.
Sources of breakages: /verif/mutants/catalogue.json (hand-made) and /verif/seeded/<id>/patch.diff
(changes written by independent sub-agents)."""
import json
import os
import shutil
import subprocess
import sys
import tempfile
import time

HERE = os.path.dirname(os.path.dirname(os.path.abspath(__file__)))
PY = sys.executable
RUNPY = os.path.join(HERE, "run.py")
REPO = "/repo"


def _apply_replace(root, m):
    path = os.path.join(root, "src", m["file"])
    s = open(path).read()
    pairs = [(m["old"], m["new"])] + [(e["old"], e["new"]) for e in m.get("extra", [])]
    for old, new in pairs:
        if s.count(old) != 1:
            raise RuntimeError(f"{m['id']}: pattern occurs {s.count(old)} times in {m['file']}")
        s = s.replace(old, new)
    open(path, "w").write(s)


def _apply_revert(root, m):
    diff = subprocess.run(["git", "-C", REPO, "show", m["revert"], "--", "src"], capture_output=True, text=True, check=True).stdout
    p = subprocess.run(["patch", "-R", "-p1", "-d", root], input=diff, capture_output=True, text=True)
    if p.returncode != 0:
        raise RuntimeError(f"{m['id']}: cannot reverse-apply {m['revert']}: {p.stdout} {p.stderr}")


def _apply_patch(root, patchfile):
    p = subprocess.run(["patch", "-p1", "-d", root, "-i", patchfile], capture_output=True, text=True)
    if p.returncode != 0:
        raise RuntimeError(f"cannot apply {patchfile}: {p.stdout} {p.stderr}")


def collect(props, only):
    out = []
    cat = json.load(open(os.path.join(HERE, "mutants", "catalogue.json")))["mutants"]
    for m in cat:
        out.append(dict(m, source="catalogue"))
    sd = os.path.join(HERE, "seeded")
    if os.path.isdir(sd):
        for name in sorted(os.listdir(sd)):
            mp = os.path.join(sd, name, "meta.json")
            if os.path.exists(mp):
                meta = json.load(open(mp))
                for prop in meta.get("detect_with", [meta["property"]]):
                    out.append({"id": name + ("" if prop == meta["property"] else "@" + prop), "property": prop,
                                "patch": os.path.join(sd, name, "patch.diff"), "what": meta.get("summary", ""), "source": "seeded",
                                "expected": meta.get("expected", "caught")})
    if props:
        out = [m for m in out if m["property"] in props]
    if only:
        out = [m for m in out if any(o in m["id"] for o in only)]
    return out


def run_one(m, runs, budget):
    root = tempfile.mkdtemp(prefix="verif-sens-")
    try:
        shutil.copytree(os.path.join(REPO, "src"), os.path.join(root, "src"), ignore=shutil.ignore_patterns("__pycache__", "*.egg-info"))
        if "patch" in m:
            _apply_patch(root, m["patch"])
        elif "patchfile" in m:
            _apply_patch(root, os.path.join(HERE, "mutants", m["patchfile"]))
        elif "revert" in m:
            _apply_revert(root, m)
        else:
            _apply_replace(root, m)
        env = dict(os.environ, VERIF_REPO_SRC=os.path.join(root, "src"), VERIF_RUNS=str(runs), VERIF_BUDGET=str(budget),
                   VERIF_NO_EVIDENCE="1")
        t0 = time.time()
        p = subprocess.run([PY, RUNPY, "check", m["property"], "--tier", "quick"], env=env, capture_output=True, text=True, timeout=1800)
        lines = [l for l in p.stdout.splitlines() if l.startswith("VIOLATION") or l.startswith("  signature") or l.startswith("HARNESS")]
        vr = [l for l in p.stdout.splitlines() if l.startswith("violating_runs=")]
        return {"id": m["id"], "property": m["property"], "exit": p.returncode, "wall": round(time.time() - t0, 1),
                "violating_runs": (vr[0].split("=", 1)[1] if vr else "?"), "lines": lines[:8], "tail": p.stdout.splitlines()[-1:] if p.returncode not in (0, 1) else []}
    finally:
        shutil.rmtree(root, ignore_errors=True)


def main(argv):
    props = [argv[argv.index("--prop") + 1]] if "--prop" in argv else None
    only = argv[argv.index("--only") + 1].split(",") if "--only" in argv else None
    todo = collect(props, only)
    defaults = {"C20": (2000, 900), "C17": (4000, 900), "C15": (600, 900)}
    results = []
    missed = 0
    for m in todo:
        runs, budget = defaults[m["property"]]
        if "--runs" in argv:
            runs = int(argv[argv.index("--runs") + 1])
        r = run_one(m, runs, budget)
        caught = r["exit"] == 1
        expected = m.get("expected", "caught")
        if expected == "pass":
            # a behaviour-preserving change: the check must stay silent
            status = "SILENT" if r["exit"] == 0 else "FALSE-ALARM"
            if r["exit"] != 0:
                missed += 1
        else:
            status = "CAUGHT" if caught else ("missed (expected: outside the property as checked)" if expected != "caught" else "MISSED")
            if not caught and expected == "caught":
                missed += 1
        print(f"{status:8s} {r['id']:34s} {r['property']} exit={r['exit']} {r['wall']}s violating_runs={r['violating_runs']}  {m.get('what', '')[:70]}", flush=True)
        for l in r["lines"][:4]:
            print("         ", l[:260], flush=True)
        for l in r["tail"]:
            print("         ", l[:400], flush=True)
        results.append(dict(r, caught=caught, what=m.get("what", ""), source=m["source"], expected=expected))
        if m["source"] == "seeded":
            sid = m["id"].split("@")[0]
            json.dump({"command": f"run.py selftest-sensitivity --only {sid}  (patch applied to a scratch copy of /repo/src, quick tier of {m['property']} aimed at it via VERIF_REPO_SRC)",
                       "exit": r["exit"], "caught": caught, "wall_s": r["wall"], "violations": r["lines"]},
                      open(os.path.join(HERE, "seeded", sid, "last_check.json"), "w"), indent=1)
    os.makedirs(os.path.join(HERE, "out"), exist_ok=True)
    # only a complete run replaces the table source of DESIGN 8.8; partial runs are kept beside it
    json.dump(results, open(os.path.join(HERE, "out", "sensitivity.json" if not (props or only) else "sensitivity_partial.json"), "w"), indent=1)
    harmful = [r for r in results if r.get("expected") != "pass"]
    benign = [r for r in results if r.get("expected") == "pass"]
    print(f"sensitivity: {sum(r['caught'] for r in harmful)}/{len(harmful)} harmful changes caught, "
          f"{sum(r['exit'] == 0 for r in benign)}/{len(benign)} benign changes silent, {missed} unexpected outcomes")
    return 1 if missed else 0
