"""Driver: batches of seeded runs, merging, known findings, minimisation, replay, evidence."""
import json
import os
import platform
import shutil
import subprocess
import sys
import time
import traceback

from .seed import run_seed, digest

HERE = os.path.dirname(os.path.dirname(os.path.abspath(__file__)))
OUT = os.path.join(HERE, "out")
PY = sys.executable
RUNPY = os.path.join(HERE, "run.py")

TIERS = {
    # property: tier -> (runs, wall budget seconds for the main batch, hash-seed pair fraction)
    # the wall budget is a safety net (a loaded machine takes longer instead of silently running fewer seeds)
    "C20": {"quick": (2000, 600, 0.05), "thorough": (60000, 5400, 0.5)},
    "C17": {"quick": (4000, 600, 0.05), "thorough": (150000, 5400, 0.2)},
    "C15": {"quick": (600, 600, 0.05), "thorough": (15000, 5400, 0.2)},
}
SECOND_HASHSEED = "4242"


def log(*a):
    print(*a, flush=True)


# =========================================================================== batch (zygote + workers)
def cmd_batch(argv):
    """internal: run.py batch <prop> <start> <count> <procs> <outdir> <deadline-epoch> [stride-list]"""
    from . import cli
    prop, start, count, procs, outdir, deadline = argv[0], int(argv[1]), int(argv[2]), int(argv[3]), argv[4], float(argv[5])
    indices = None
    if len(argv) > 6 and argv[6] != "-":
        indices = json.load(open(argv[6]))
    vseed = int(os.environ.get("VERIF_SEED", "0"))
    overrides = json.loads(os.environ.get("VERIF_OVERRIDES", "null"))
    cli.load_ops(prop)                     # the zygote: library imported, no operation ever run here
    os.makedirs(outdir, exist_ok=True)
    todo = indices if indices is not None else list(range(start, start + count))
    pids = []
    for w in range(procs):
        pid = os.fork()
        if pid == 0:
            code = 0
            try:
                _worker(prop, vseed, todo[w::procs], os.path.join(outdir, f"w{w}.jsonl"), deadline, overrides)
            except BaseException:
                traceback.print_exc()
                code = 3
            finally:
                os._exit(code)
        pids.append(pid)
    bad = 0
    for pid in pids:
        _, st = os.waitpid(pid, 0)
        if st != 0:
            bad += 1
    return 3 if bad else 0


def _worker(prop, vseed, indices, outfile, deadline, overrides):
    from . import cli, isolate
    from .shrink import signature
    agg = {"runs": 0, "steps": 0, "ops": {}, "faults_fired": {}, "interrupt_sites": {}, "status": {}, "probes": {},
           "disk_probes": {}, "ref_forks": 0, "o1_compared": 0, "o3_groups": 0, "nontrivial": 0,
           "sched_sigs": set(), "share_sigs": set(), "skipped_deadline": 0, "harness_errors": [], "samples": [],
           "fault_runs": 0, "faultfree_runs": 0, "store_states": set(), "discarded": {}, "faults_placed": {}, "cov": set(), "cov_runs": 0}
    seen_sigs = {}
    with open(outfile, "w") as out:
        for i in indices:
            if time.time() > deadline:
                agg["skipped_deadline"] += 1
                continue
            seed = run_seed(vseed, "", prop, i)
            try:
                plan = cli.gen_plan(prop, seed, overrides)
                # line coverage of the library is measured on a sample of fault-free runs (every 25th run index)
                want_cov = (i % 8 == 0) and not any(s.get("fault") for s in _all(plan))
                res = isolate.execute(plan, coverage=want_cov)
                if want_cov:
                    agg["cov_runs"] += 1
                    agg["cov"].update(tuple(x) for x in res["coverage"])
            except Exception as e:
                agg["harness_errors"].append({"i": i, "seed": seed, "error": f"{type(e).__name__}: {str(e)[:2000]}"})
                continue
            st = res["stats"]
            from . import engine as _engine
            for _s in _engine.index_steps(plan).values():
                if _s.get("fault"):
                    _k = _s["fault"]["kind"]
                    agg["faults_placed"][_k] = agg["faults_placed"].get(_k, 0) + 1
            agg["runs"] += 1
            agg["steps"] += st["steps"]
            for k in ("ops", "faults_fired", "interrupt_sites", "status"):
                for kk, v in st[k].items():
                    agg[k][kk] = agg[k].get(kk, 0) + v
            for k in ("ref_forks", "o1_compared", "o3_groups"):
                agg[k] += st[k]
            agg["layout_sensitive_unjudged"] = agg.get("layout_sensitive_unjudged", 0) + st.get("layout_sensitive_unjudged", 0)
            for kk, v in res["probes"].items():
                if kk in ("max_nest_depth", "module_fingerprints"):
                    agg["probes"][kk] = max(agg["probes"].get(kk, 0), v)
                else:
                    agg["probes"][kk] = agg["probes"].get(kk, 0) + v
            for kk, v in res["disk_probes"].items():
                agg["disk_probes"][kk] = agg["disk_probes"].get(kk, 0) + v
            if st["faults_fired"]:
                agg["fault_runs"] += 1
            else:
                agg["faultfree_runs"] += 1
            reach = reach_of(plan, res)
            agg["sched_sigs"].add(reach["sched_sig"])
            if reach["nontrivial"]:
                agg["nontrivial"] += 1
                agg["share_sigs"].add(reach["share_sig"])
            for s in reach.get("store_states", []):
                agg["store_states"].add(s)
            for k, v in reach.get("discarded", {}).items():
                agg["discarded"][k] = agg["discarded"].get(k, 0) + v
            if len(agg["samples"]) < 2 and reach["nontrivial"]:
                agg["samples"].append(sample_of(plan, res))
            line = {"i": i, "seed": seed, "sched": res["schedule_digest"], "resd": res["result_digest"],
                    "nviol": len(res["violations"])}
            if res["violations"]:
                vs = []
                for v in res["violations"]:
                    sg = json.dumps(signature(v))
                    seen_sigs[sg] = seen_sigs.get(sg, 0) + 1
                    vs.append(v)
                line["violations"] = vs
                # keep the plan of the first few runs per signature (for minimisation by the driver)
                if any(seen_sigs[json.dumps(signature(v))] <= 3 for v in vs):
                    line["plan"] = plan
            out.write(json.dumps(line) + "\n")
        for k in ("sched_sigs", "share_sigs", "store_states"):
            agg[k] = sorted(agg[k])
        agg["cov"] = sorted(agg["cov"])
        out.write(json.dumps({"agg": agg}) + "\n")


def _all(plan):
    from . import engine
    return engine.index_steps(plan).values()


def reach_of(plan, res):
    """reach measures of one run (DESIGN 3.10)"""
    from . import engine
    idx = engine.index_steps(plan)
    order = [(r["client"], r["op"], r["depth"]) for r in res["records"]]
    sched_sig = digest(order)
    # sharing graph: which steps of different clients touched the same pool object
    touch = {}
    for r in res["records"]:
        s = idx[r["id"]]
        for p in _pool_refs(s.get("a", {})):
            touch.setdefault(p, set()).add(r["client"])
        for k in ("path",):
            if k in s.get("a", {}):
                touch.setdefault("file:" + s["a"][k], set()).add(r["client"])
    shared = sorted((p, tuple(sorted(c))) for p, c in touch.items() if len(c) >= 2)
    reuse = any(len([1 for r in res["records"] if p in _pool_refs(idx[r["id"]].get("a", {}))]) >= 2 for p in touch)
    out = {"sched_sig": sched_sig, "share_sig": digest([order, shared]),
           "nontrivial": bool(shared) if plan["property"] == "C20" else bool(reuse)}
    st = []
    for r in res["records"]:
        if "saw" in r:
            st.append(r["saw"][0] + (":" + r["saw"][1] if r["saw"][0] == "bot" else ""))
    out["store_states"] = sorted(set(st))
    out["discarded"] = res.get("discarded", {})
    return out


def _pool_refs(v):
    out = []
    if isinstance(v, dict):
        if "p" in v and len(v) == 1:
            out.append(v["p"])
        else:
            for x in v.values():
                out.extend(_pool_refs(x))
    elif isinstance(v, list):
        for x in v:
            out.extend(_pool_refs(x))
    return out


def sample_of(plan, res):
    def brief(s):
        o = {"id": s["id"], "client": s.get("client"), "op": s["op"], "a": s.get("a", {})}
        if s.get("wrap"):
            o["wrap"] = True
        if s.get("fault"):
            o["fault"] = s["fault"]
        if s.get("nested"):
            o["nested"] = [{"at": n["at"], "steps": [brief(x) for x in n["steps"]]} for n in s["nested"]]
        return o
    return {"seed": plan["seed"], "config": plan["config"], "recipes": sorted(plan["recipes"].keys()),
            "steps": [brief(s) for s in plan["steps"]],
            "outcome": [[r["id"], r["status"]] for r in res["records"]]}


# =========================================================================== check
def run_batch(prop, todo, procs, outdir, deadline, hashseed, overrides=None, vseed=None):
    os.makedirs(outdir, exist_ok=True)
    idxfile = os.path.join(outdir, "indices.json")
    json.dump(list(todo), open(idxfile, "w"))
    env = dict(os.environ)
    env["PYTHONHASHSEED"] = str(hashseed)
    if overrides is not None:
        env["VERIF_OVERRIDES"] = json.dumps(overrides)
    if vseed is not None:
        env["VERIF_SEED"] = str(vseed)
    return subprocess.Popen([PY, RUNPY, "batch", prop, "0", "0", str(procs), outdir, str(deadline), idxfile], env=env,
                            stdout=subprocess.PIPE, stderr=subprocess.STDOUT, text=True)


def collect(outdir):
    runs, aggs = {}, []
    for f in sorted(os.listdir(outdir)):
        if not f.endswith(".jsonl"):
            continue
        for line in open(os.path.join(outdir, f)):
            d = json.loads(line)
            if "agg" in d:
                aggs.append(d["agg"])
            else:
                runs[d["i"]] = d
    return runs, aggs


def merge_aggs(aggs):
    m = {"runs": 0, "steps": 0, "ops": {}, "faults_fired": {}, "interrupt_sites": {}, "status": {}, "probes": {},
         "disk_probes": {}, "ref_forks": 0, "o1_compared": 0, "o3_groups": 0, "nontrivial": 0, "sched_sigs": set(),
         "share_sigs": set(), "skipped_deadline": 0, "harness_errors": [], "samples": [], "fault_runs": 0,
         "faultfree_runs": 0, "store_states": set(), "discarded": {}, "faults_placed": {}, "cov": set(), "cov_runs": 0}
    for a in aggs:
        m["cov"].update(tuple(x) for x in a.get("cov", []))
        m["cov_runs"] += a.get("cov_runs", 0)
        for k in ("runs", "steps", "ref_forks", "o1_compared", "o3_groups", "nontrivial", "skipped_deadline", "fault_runs", "faultfree_runs"):
            m[k] += a[k]
        m["layout_sensitive_unjudged"] = m.get("layout_sensitive_unjudged", 0) + a.get("layout_sensitive_unjudged", 0)
        for k in ("ops", "faults_fired", "interrupt_sites", "status", "disk_probes", "discarded", "faults_placed"):
            for kk, v in a.get(k, {}).items():
                m[k][kk] = m[k].get(kk, 0) + v
        for kk, v in a["probes"].items():
            m["probes"][kk] = max(m["probes"].get(kk, 0), v) if kk in ("max_nest_depth", "module_fingerprints") else m["probes"].get(kk, 0) + v
        for k in ("sched_sigs", "share_sigs", "store_states"):
            m[k].update(a[k])
        m["harness_errors"].extend(a["harness_errors"])
        m["samples"].extend(a["samples"])
    return m


def load_known():
    p = os.path.join(HERE, "known_findings.json")
    if not os.path.exists(p):
        return []
    return json.load(open(p))["findings"]


def match_known(v, plan, known):
    """an open finding matches when signature AND input class agree (fixed entries suppress nothing)"""
    from .findings import input_class_matches
    for k in known:
        if k.get("status") != "open" or k["property"] != v["property"]:
            continue
        sg = k["signature"]
        if all(v.get(f, "") == sg[f] for f in sg):
            if input_class_matches(k.get("input_class"), v, plan):
                return k
    return None


def _sweep_old_scratch(max_age_s=2 * 3600):
    """scratch of earlier (killed) checks and old replay files do not pile up"""
    now = time.time()
    for sub in ("work", "replays", "scratch"):
        base = os.path.join(OUT, sub)
        if not os.path.isdir(base):
            continue
        for name in os.listdir(base):
            p = os.path.join(base, name)
            try:
                if now - os.path.getmtime(p) > max_age_s:
                    shutil.rmtree(p, ignore_errors=True) if os.path.isdir(p) else os.remove(p)
            except OSError:
                pass


def cmd_check(argv):
    prop = argv[0]
    tier = os.environ.get("VERIF_TIER", "quick")
    if "--tier" in argv:
        tier = argv[argv.index("--tier") + 1]
    vseed = int(os.environ.get("VERIF_SEED", "0"))
    procs = int(os.environ.get("VERIF_PROCS", str(os.cpu_count() or 4)))
    n, budget, pair_frac = TIERS[prop][tier]
    if os.environ.get("VERIF_RUNS"):
        n = int(os.environ["VERIF_RUNS"])
    if os.environ.get("VERIF_BUDGET"):
        budget = float(os.environ["VERIF_BUDGET"])
    t0 = time.time()
    work = os.path.join(OUT, "work", f"{prop}-{tier}-{os.getpid()}")
    shutil.rmtree(work, ignore_errors=True)
    os.makedirs(work)
    _sweep_old_scratch()
    log(f"check {prop} tier={tier} VERIF_SEED={vseed} runs={n} procs={procs} budget={budget}s source={os.environ.get('VERIF_REPO_SRC', '/repo/src')}")
    deadline = time.time() + budget
    # main batch under hash seed 0, pair batch (a seeded subset) under a second hash seed
    npair = max(8, int(n * pair_frac)) if pair_frac < 1 else n
    pair_idx = list(range(0, n, max(1, n // npair)))[:npair]
    pa = max(1, procs - max(1, procs // 5)) if pair_frac < 1 else max(1, procs // 2)
    pb = max(1, procs - pa)
    A = run_batch(prop, range(n), pa, os.path.join(work, "A"), deadline, 0, vseed=vseed)
    B = run_batch(prop, pair_idx, pb, os.path.join(work, "B"), deadline, SECOND_HASHSEED, vseed=vseed)
    outA, outB = A.communicate()[0], B.communicate()[0]
    harness = []
    if A.returncode != 0 or B.returncode != 0:
        harness.append(f"batch exit codes {A.returncode}/{B.returncode}: {(outA or '')[-1500:]} {(outB or '')[-1500:]}")
    runsA, aggsA = collect(os.path.join(work, "A"))
    runsB, aggsB = collect(os.path.join(work, "B"))
    agg = merge_aggs(aggsA)
    aggB = merge_aggs(aggsB)
    for e in agg["harness_errors"] + aggB["harness_errors"]:
        harness.append(f"run {e['i']} seed {e['seed']}: {e['error']}")

    # ---- O4: cross-process repeatability under another PYTHONHASHSEED
    violations = []     # (violation dict, plan or None)
    pair_checked = 0
    o4_confirmed = 0
    for i, rb in sorted(runsB.items()):
        ra = runsA.get(i)
        if ra is None:
            continue
        pair_checked += 1
        if prop in ("C15", "C17"):
            # C17 and C15 speak about one process (and C15 leaves node labels free ("up to a renaming of nodes"): results may legitimately depend on set order;
            # the pair batch still checks that the SCHEDULE is independent of the hash seed; O4 proper belongs to C20)
            if ra["sched"] != rb["sched"]:
                harness.append(f"schedule digest of run {i} differs between hash seeds (harness nondeterminism)")
            continue
        if ra["sched"] != rb["sched"]:
            harness.append(f"schedule digest of run {i} differs between hash seeds (harness nondeterminism)")
        elif ra["resd"] != rb["resd"] and o4_confirmed >= 3:
            pass        # three confirmed occurrences are reported; the remaining digest mismatches are not re-run
        elif ra["resd"] != rb["resd"] and confirm_hashseed_difference(prop, i, vseed) is None:
            pass        # digests differ only by rounding at the 10th digit: tolerantly equal, not a violation
        elif ra["resd"] != rb["resd"]:
            o4_confirmed += 1
            violations.append(({"property": prop, "oracle": "O4", "step": "-", "op": "run", "sub": "", "kind": "hashseed-dependent-result",
                                "detail": f"run {i} (seed {ra['seed']}) gives different results under PYTHONHASHSEED=0 and {SECOND_HASHSEED}",
                                "run_index": i, "verif_seed": vseed},
                               regenerate_plan(prop, ra["seed"]), ra["seed"]))
    for i, r in sorted(runsA.items()):
        for v in r.get("violations", []):
            violations.append((v, r.get("plan"), r["seed"]))

    # ---- classify: known findings vs new violations
    from .shrink import signature
    known = load_known()
    by_sig = {}
    for v, plan, seed in violations:
        by_sig.setdefault(json.dumps(signature(v)), []).append((v, plan, seed))
    known_hits, new = {}, {}
    for sg, items in by_sig.items():
        for v, plan, seed in items:
            k = match_known(v, plan, known) if plan is not None else None
            if k is None and plan is None:
                # plan not kept for this occurrence: classify by an occurrence of the same signature that has one
                k = next((match_known(v2, p2, known) for v2, p2, _ in items if p2 is not None and match_known(v2, p2, known)), None)
            if k is not None:
                known_hits.setdefault(k["id"], [0, k])[0] += 1
            else:
                new.setdefault(sg, []).append((v, plan, seed))

    exit_code = 0
    replays = []
    for kid, (cnt, k) in sorted(known_hits.items()):
        log(f"KNOWN-FINDING: property={prop} {k['id']} {k['what']} (seen {cnt}x)")
    # minimise in parallel; root-cause oracles (O2 mutation, O5 model) first; beyond MAX_SHRINK signatures the
    # replay file is the unshrunk failing plan (still explicit, still verified by a fresh-process replay)
    MAX_SHRINK = int(os.environ.get("VERIF_MAX_SHRINK", "6"))
    order = sorted(new.items(), key=lambda kv: ({"O2": 0, "O5": 1, "O4": 2, "O3": 3, "O1": 4}.get(json.loads(kv[0])[1], 9), kv[0]))
    jobs = []
    for rank, (sg, items) in enumerate(order):
        v, plan, seed = next(((v, p, s) for v, p, s in items if p is not None), items[0])
        jobs.append((sg, items, v, plan, seed, rank < MAX_SHRINK))
    from concurrent.futures import ThreadPoolExecutor
    work_dir = work

    def _do(job):
        sg, items, v, plan, seed, do_shrink = job
        path = None
        if plan is not None and do_shrink and v["oracle"] != "O4":
            path = minimise_and_write(prop, plan, v, seed, work_dir)
        if path is None:
            path = write_replay_unshrunk(prop, v, plan, seed)
        return path
    with ThreadPoolExecutor(max_workers=8) as ex:
        paths = list(ex.map(_do, jobs))
    for (sg, items, v, plan, seed, _), path in zip(jobs, paths):
        replays.append(path)
        log(f"VIOLATION property={prop} replay={path}")
        log(f"  signature={sg} occurrences={len(items)} first: step {v['step']} {v['op']} {v['kind']}: {v['detail'][:300]}")
        exit_code = 1
    if harness:
        for h in harness[:10]:
            log("HARNESS-ERROR", h[:3000])
        if exit_code == 0:
            exit_code = 2
    wall = time.time() - t0
    if not os.environ.get("VERIF_NO_EVIDENCE"):      # sensitivity runs aim at a scratch copy: never evidence
        write_evidence(prop, tier, vseed, agg, aggB, pair_checked, len(new), known_hits, wall, n, harness)
    viol_runs = sum(1 for r in runsA.values() if r.get("nviol"))
    log(f"violating_runs={viol_runs} of {len(runsA)}")
    log(f"done: runs={agg['runs']}/{n} steps={agg['steps']} nontrivial={len(agg['share_sigs'])} faults={agg['faults_fired']} "
        f"pairs={pair_checked} new_violations={len(new)} known={len(known_hits)} wall={wall:.1f}s exit={exit_code}")
    shutil.rmtree(work, ignore_errors=True)       # replay files live in out/replays, nothing else is kept
    return exit_code


def regenerate_plan(prop, seed):
    """plans are a pure function of (property, seed): an O4 replay file carries the plan like every other one"""
    try:
        p = subprocess.run([PY, RUNPY, "genplan", prop, str(seed)], capture_output=True, text=True, timeout=120,
                           env=dict(os.environ, PYTHONHASHSEED="0"))
        line = next((l for l in p.stdout.splitlines() if l.startswith("PLAN ")), None)
        return json.loads(line[5:]) if line else None
    except Exception:
        return None


def confirm_hashseed_difference(prop, i, vseed):
    """digests are exact; before a hash-seed dependence is reported, the run is repeated under both hash seeds in
    fresh interpreters and the canonical results are compared with the numeric tolerance of O1.
    Returns a description of the first difference, or None when the results agree tolerantly."""
    from . import canon
    outs = []
    for hs in ("0", SECOND_HASHSEED):
        env = dict(os.environ, PYTHONHASHSEED=hs, VERIF_SEED=str(vseed))
        try:
            p = subprocess.run([PY, RUNPY, "runjson", prop, str(i)], env=env, capture_output=True, text=True, timeout=600)
        except subprocess.TimeoutExpired:
            return "confirmation run timed out"
        line = next((l for l in p.stdout.splitlines() if l.startswith("RUNJSON ")), None)
        if line is None:
            return "confirmation run produced no result"
        outs.append(canon.dec(json.loads(line[len("RUNJSON "):])))
    return canon.diff(outs[0], outs[1])


def minimise_and_write(prop, plan, v, seed, work):
    """shrink in a fresh zygote process, write the replay file, verify it in another fresh process"""
    from .shrink import signature
    os.makedirs(os.path.join(OUT, "replays"), exist_ok=True)
    sig = signature(v)
    name = f"{prop}-{seed}-{digest(sig)[:8]}-{digest(os.environ.get('VERIF_REPO_SRC', '/repo/src'))[:4]}.json"
    path = os.path.join(OUT, "replays", name)
    job = os.path.join(work, "shrink-" + name)
    json.dump({"plan": plan, "sig": sig, "violation": v, "seed": seed, "out": path}, open(job, "w"))
    try:
        p = subprocess.run([PY, RUNPY, "shrink", job], capture_output=True, text=True, timeout=900)
        if p.returncode != 0 or not os.path.exists(path):
            log("HARNESS-ERROR shrink failed:", (p.stdout + p.stderr)[-2000:])
            return None
        r = subprocess.run([PY, RUNPY, "replay", path], capture_output=True, text=True, timeout=300)
        if r.returncode != 1:
            log(f"HARNESS-ERROR minimised replay {path} did not reproduce (exit {r.returncode}): {(r.stdout + r.stderr)[-1500:]}")
            return None
        return path
    except subprocess.TimeoutExpired:
        log("HARNESS-ERROR shrink/replay timed out")
        return None


def write_replay_unshrunk(prop, v, plan, seed):
    from .shrink import signature
    os.makedirs(os.path.join(OUT, "replays"), exist_ok=True)
    path = os.path.join(OUT, "replays", f"{prop}-{seed}-{digest(signature(v))[:8]}-{digest(os.environ.get('VERIF_REPO_SRC', '/repo/src'))[:4]}-unshrunk.json")
    json.dump(replay_doc(prop, seed, plan, v, 0), open(path, "w"), indent=1)
    return path


def replay_doc(prop, seed, plan, v, used):
    from .shrink import signature
    return {"property": prop, "seed": seed, "signature": signature(v), "violation": v, "plan": plan,
            "shrink_executions": used, "source_root": os.environ.get("VERIF_REPO_SRC", "/repo/src"),
            "python": platform.python_version(), "hashseed": os.environ.get("PYTHONHASHSEED")}


def cmd_shrink(argv):
    from . import cli, isolate
    from .shrink import shrink, has_sig
    job = json.load(open(argv[0]))
    plan, sig = job["plan"], job["sig"]
    cli.load_ops(plan["property"])
    if plan is None:
        return 3
    small, used = shrink(plan, sig, lambda p: isolate.execute(p))
    res = isolate.execute(small)
    v = next((x for x in res["violations"] if [x["property"], x["oracle"], x["op"], x.get("sub", ""), x["kind"]] == sig), job["violation"])
    json.dump(replay_doc(plan["property"], job["seed"], small, v, used), open(job["out"], "w"), indent=1)
    return 0


def cmd_replay(argv):
    from . import cli, isolate
    from .shrink import has_sig
    doc = json.load(open(argv[0]))
    plan = doc["plan"]
    if plan is None:
        log("replay file carries no plan (cross-process violation): re-run the check with the same VERIF_SEED")
        return 2
    cli.load_ops(plan["property"])
    if doc["signature"][1] == "O4":
        # a hash-seed dependence is replayed by running the recorded plan in two fresh interpreters
        from . import canon
        outs = []
        for hs in ("0", SECOND_HASHSEED):
            p = subprocess.run([PY, RUNPY, "runplan", os.path.abspath(argv[0])], env=dict(os.environ, PYTHONHASHSEED=hs),
                               capture_output=True, text=True, timeout=900)
            line = next((l for l in p.stdout.splitlines() if l.startswith("RUNJSON ")), None)
            if line is None:
                log("HARNESS-ERROR replay of a hash-seed violation produced no result:", (p.stdout + p.stderr)[-500:])
                return 2
            outs.append(canon.dec(json.loads(line[len("RUNJSON "):])))
        dff = canon.diff(outs[0], outs[1])
        if dff:
            log("  O4", dff[:300])
            log(f"VIOLATION property={doc['property']} replay={os.path.abspath(argv[0])}")
            return 1
        log("replay: recorded violation did not reappear")
        return 0
    res = isolate.execute(plan)          # no PRNG is consulted: every choice is in the file
    if "-v" in argv:
        for r in res["records"]:
            log(r["id"], r["op"], r["status"], str(r.get("result"))[:200], r.get("o2", ""), r.get("model", ""))
    for v in res["violations"]:
        log("  ", v["oracle"], v["step"], v["op"], v["kind"], v["detail"][:300])
    if has_sig(res, doc["signature"]):
        log(f"VIOLATION property={doc['property']} replay={os.path.abspath(argv[0])}")
        return 1
    log("replay: recorded violation did not reappear")
    return 0


# =========================================================================== evidence
RULES = {
    "C20": "runs are seeded multi-client call histories over a shared object pool; a run is non-trivial when >= 2 clients touched a common pool object or file; distinct = distinct (schedule signature, sharing graph) among non-trivial runs",
    "C17": "runs are seeded load/serialise histories over shared description objects and the simulated file device; non-trivial when some description object or path is used by >= 2 steps; distinct = distinct (schedule signature, sharing graph)",
    "C15": "runs are seeded save/load histories of generated schematics and declarative lists over the simulated file device; non-trivial when a drawing or path is used by >= 2 steps; distinct = distinct (schedule signature, sharing graph)",
}


def write_evidence(prop, tier, vseed, agg, aggB, pair_checked, n_new, known_hits, wall, n_planned, harness):
    os.makedirs(os.path.join(HERE, "evidence"), exist_ok=True)
    runs = agg["runs"]
    ev = {
        "property_id": prop, "tier": tier, "seed": vseed, "level": "exploration",
        "coverage": {
            "evaluations": runs,
            "distinct_nontrivial": len(agg["share_sigs"]),
            "rule": RULES[prop],
            "samples": agg["samples"][:3],
            "runs_planned": n_planned,
            "runs_skipped_by_wall_budget": agg["skipped_deadline"],
            "runs_per_hour": int(runs / wall * 3600) if wall > 0 else 0,
            "seeds_per_hour": int(runs / wall * 3600) if wall > 0 else 0,
            "steps": agg["steps"],
            "ops_by_kind": dict(sorted(agg["ops"].items())),
            "step_status": agg["status"],
            "fault_injecting_runs": agg["fault_runs"], "fault_free_runs": agg["faultfree_runs"],
            "faults_fired": dict(sorted(agg["faults_fired"].items())),
            "faults_placed": dict(sorted(agg["faults_placed"].items())),
            "interrupt_sites_distinct": len(agg["interrupt_sites"]),
            "interrupt_sites_top": dict(sorted(agg["interrupt_sites"].items(), key=lambda kv: -kv[1])[:15]),
            "schedule_signatures": len(agg["sched_sigs"]),
            "sharing_graphs": len(agg["share_sigs"]),
            "store_states": sorted(agg["store_states"]),
            "probes": dict(sorted({**agg["probes"], **agg["disk_probes"]}.items())),
            "layout_sensitive_numeric_differences_unjudged": agg.get("layout_sensitive_unjudged", 0),
            "isolated_reference_forks": agg["ref_forks"], "o1_comparisons": agg["o1_compared"], "o3_repeat_groups": agg["o3_groups"],
            "hashseed_pairs_compared": pair_checked, "hashseeds": ["0", SECOND_HASHSEED],
            "discarded": agg["discarded"],
            "library_line_coverage": line_coverage(agg),
            "known_findings_seen": {k: v[0] for k, v in known_hits.items()},
            "harness_errors": len(harness),
            "simulated_time": "none - the code under test reads no clock; steps are the unit",
            "real_components": ["CircuitCalculator (working tree)", "numpy", "scipy", "schemdraw", "json", "PyYAML",
                                "CPython TextIOWrapper/BufferedReader/BufferedWriter", "OS processes (fork) for isolation"],
            "stub_components": ["raw file device (io.RawIOBase) behind a process-wide dispatching layer for open/os.*/fcntl/mmap (sim/simfs.py)",
                                "st_mtime clock of the device (fine / coarse / frozen per run)",
                                "id() as seen by library modules (adversarial reuse of the ids of dead objects)",
                                "display: schemdraw runs as in an inline session (renders, but writes no /tmp/*.svg and spawns no viewer)",
                                "caller-supplied callables (solver, mappers, input signals, dump/deserialize functions): the library's own defaults wrapped by the simulator"],
        },
        "assumptions": [
            "a clean batch is evidence, not proof: histories are sampled",
            "thread safety, crash durability of dump and numerical correctness are out of scope",
            "numbers compare with relative tolerance 1e-9 or 1e-12 of the largest magnitude in the two results, nan==nan",
            "after a failed or interrupted save a load may raise; what it returns instead is judged (old or new, never a mixture) for JSON only",
        ],
        "wall_s": round(wall, 2), "violations": n_new,
    }
    json.dump(ev, open(os.path.join(HERE, "evidence", f"{prop}.json"), "w"), indent=1)


def line_coverage(agg):
    """distinct executable lines inside function bodies of the library reached by a sample of fault-free runs
    (files never entered are not listed; import-time lines are not counted)"""
    src = os.environ.get("VERIF_REPO_SRC", "/repo/src")
    by_file = {}
    for f, ln in agg["cov"]:
        by_file.setdefault(f, set()).add(ln)
    out = {"sampled_runs": agg["cov_runs"], "files": {}}
    tot_hit = tot_all = 0
    for f in sorted(by_file):
        try:
            code = compile(open(os.path.join(src, f)).read(), f, "exec")
        except Exception:
            continue
        lines = set()

        def walk(c):
            if c.co_flags & 0x1:          # CO_OPTIMIZED: function / lambda / comprehension bodies (not import-time code)
                for _, _, ln in c.co_lines():
                    if ln and ln != c.co_firstlineno:
                        lines.add(ln)
            for k in c.co_consts:
                if hasattr(k, "co_lines"):
                    walk(k)
        walk(code)
        hit = len(by_file[f] & lines)
        out["files"][f] = [hit, len(lines)]
        tot_hit += hit
        tot_all += len(lines)
    out["total"] = [tot_hit, tot_all]
    return out


# =========================================================================== setup / selftests
def cmd_setup(argv):
    from . import boot
    boot.boot_drawing()
    import numpy, scipy, yaml, schemdraw, matplotlib  # noqa: F401
    import CircuitCalculator
    log("setup ok:", CircuitCalculator.__file__, "numpy", numpy.__version__, "scipy", scipy.__version__, "schemdraw", schemdraw.__version__)
    os.makedirs(OUT, exist_ok=True)
    return 0


def cmd_selftest_determinism(argv):
    """same seeds twice in different processes, at two worker counts and under a second hash seed"""
    prop_list = [argv[argv.index("--prop") + 1]] if "--prop" in argv else ["C20", "C17", "C15"]
    n = int(argv[argv.index("--n") + 1]) if "--n" in argv else 24
    bad = 0
    for prop in prop_list:
        work = os.path.join(OUT, "work", f"det-{prop}-{os.getpid()}")
        shutil.rmtree(work, ignore_errors=True)
        deadline = time.time() + 3600
        confs = [("a", 16, 0), ("b", 1 if n <= 48 else 4, 0), ("c", 7, SECOND_HASHSEED), ("d", 16, 0)]
        procs = [run_batch(prop, range(n), p, os.path.join(work, name), deadline, hs) for name, p, hs in confs]
        for p in procs:
            p.communicate()
        ref, _ = collect(os.path.join(work, "a"))
        for name, p, hs in confs[1:]:
            other, _ = collect(os.path.join(work, name))
            mism = [i for i in ref if i not in other or ref[i]["sched"] != other[i]["sched"] or ref[i]["resd"] != other[i]["resd"]]
            log(f"determinism {prop}: {len(ref)} seeds, procs {confs[0][1]} vs {p}, hashseed 0 vs {hs}: mismatches={len(mism)} {mism[:5]}")
            bad += len(mism)
        shutil.rmtree(work, ignore_errors=True)
    return 2 if bad else 0


def main(cmd, rest):
    if cmd == "setup":
        return cmd_setup(rest)
    if cmd == "check":
        return cmd_check(rest)
    if cmd == "batch":
        return cmd_batch(rest)
    if cmd == "shrink":
        return cmd_shrink(rest)
    if cmd == "replay":
        return cmd_replay(rest)
    if cmd == "selftest-determinism":
        return cmd_selftest_determinism(rest)
    if cmd == "selftest-sensitivity":
        from . import sensitivity
        return sensitivity.main(rest)
    print("unknown command", cmd)
    return 2
