"""Executes a plan (a seeded, fully explicit history) against the real library.

A plan is pure data:
  {"property", "seed", "config", "recipes": {name: recipe}, "steps": [step, ...]}
  step = {"id", "client", "op", "a": {...}, "nested": [{"at": n, "steps": [...]}], "fault": {...}}
Arguments refer to pool objects {"p": name} or to handles {"h": producing-step-id}.
No PRNG is consulted during execution: every choice is in the plan.
"""
import sys
import os

from . import canon as C
from . import world
from .simfs import SimDisk
from .boot import SRC

OPS = {}          # op name -> OpSpec


class OpSpec:
    def __init__(self, fn, handle=False, reads=None, writes=None, seam=None, model=None, snap=False):
        self.fn = fn
        self.handle = handle      # result is kept as a handle for later steps
        self.reads = reads        # arg name holding a path that is read
        self.writes = writes      # arg name holding a path that is written
        self.seam = seam          # name of the seam this op exposes (None = no seam)
        self.model = model        # independent reference model: model(ctx, a) -> expectation checker
        self.snap = snap          # result joins the O2 snapshot set (derived description object)


def op(name, **kw):
    def deco(fn):
        OPS[name] = OpSpec(fn, **kw)
        return fn
    return deco


class IdSim:
    """Seam for object identity.  CPython may hand the id() of a dead object to a new one; whether it does depends
    on the allocator and on everything else the process allocated, which a simulated history does not reproduce.
    Installed as the module attribute `id` of every library module (the library itself never calls id(); a change
    that keys a cache on id() meets it), it implements the contract adversarially and deterministically: ids are
    unique among simultaneously live objects, and a new object of a type ALWAYS gets the id of the most recently
    died object of that type, if there is one."""

    def __init__(self):
        import weakref
        self.weakref = weakref
        self.live = {}          # real id -> simulated id, for live weak-referenceable objects
        self.retired = {}       # type name -> stack of simulated ids whose objects died
        self.next = 10 ** 9
        self.reused = 0

    def __call__(self, obj):
        rid = id(obj)
        sid = self.live.get(rid)
        if sid is not None:
            return sid
        tn = type(obj).__name__
        try:
            self.weakref.ref(obj)
        except TypeError:       # not weak-referenceable (list, dict, int ...): the real id
            return rid
        stack = self.retired.get(tn)
        if stack:
            sid = stack.pop()
            self.reused += 1
        else:
            self.next += 16
            sid = self.next
        self.weakref.finalize(obj, self._died, rid, tn, sid)
        self.live[rid] = sid
        return sid

    def _died(self, rid, tn, sid):
        self.live.pop(rid, None)
        self.retired.setdefault(tn, []).append(sid)


class SimInterrupt(KeyboardInterrupt):
    """Injected at a statement boundary of library code (Ctrl-C / 'interrupt kernel')."""


class SimMemoryError(MemoryError):
    """failing allocation at a statement boundary of library code"""


class SimKeyError(KeyError):
    """an exception of a class the library itself handles in places (except KeyError: ...)"""


class SimTypeError(TypeError):
    pass


class SimOSError(OSError):
    pass


class SimLinAlgError(Exception):
    pass


def _linalg_class():
    import numpy as np

    class SimLinAlg(np.linalg.LinAlgError):
        pass
    return SimLinAlg


class SimCallbackError(RuntimeError):
    """what a caller-supplied callable raises (seam-raise): a class the library has no handler for"""


# Only events that are LEGAL at an arbitrary statement are injected by line: an asynchronous KeyboardInterrupt and a
# failed allocation.  KeyError / TypeError / OSError / LinAlgError cannot legally appear at arbitrary library lines; a
# library that handles them where they CAN occur (and, say, memoises the fallback) must not be blamed (review 3).
INJECTED = {"interrupt": lambda: SimInterrupt, "memory": lambda: SimMemoryError, "callback": lambda: SimCallbackError}


class Skip(Exception):
    """step could not run because a consumed handle does not exist (its producer failed / was cut)."""


INTERRUPTED = ["interrupted"]


class Ctx:
    def __init__(self, plan, mode="history"):
        self.plan = plan
        self.mode = mode                       # 'history' | 'ref'
        self.cfg = plan.get("config", {})
        self.events = []                       # schedule-relevant events (nested calls, fired faults, raw I/O)
        self.disk = SimDisk(buffer_size=self.cfg.get("buffer_size", 8192), log=self.events)
        self.pool = world.build_pool(plan["recipes"])
        self.handles = {}
        self.records = []                      # one per executed step, in execution order
        self.depth = 0
        self.snap_objs = {}                    # name -> object under O2 watch
        self.snap_base = {}                    # name -> exact key at creation
        self.probes = {}
        self.model_state = {}                  # for O5 store model etc.
        self.pending_o2 = {}
        self.cb_fault = None                   # armed by the executing step: "the n-th call-back made during this step raises"
        self.active_tracer = None              # tracer of the faulted step whose operation is on the stack
        self.kept = []                         # (record, raw result, exact key at return time) for O6
        self.fingerprints = set()
        self._watch = None
        for name, obj in self.pool.items():
            self.watch("p:" + name, obj)
        self._install_fs()

    # ---- file seam and identity seam
    def _install_fs(self):
        from . import simfs
        self.disk.mtime_mode = self.cfg.get("mtime_mode", "fine")
        simfs.activate(self.disk)          # the dispatch layer was installed before the library was imported
        self.idsim = IdSim()
        for name, m in list(sys.modules.items()):
            if m is not None and (name == "CircuitCalculator" or name.startswith("CircuitCalculator.")):
                try:
                    if "id" not in vars(m) or isinstance(vars(m)["id"], IdSim):
                        m.id = self.idsim           # never over a name the library defines itself
                except Exception:
                    pass                            # a lazy proxy or a module without __dict__: nothing to install

    # ---- O2
    def watch(self, name, obj):
        self.snap_objs[name] = obj
        self.snap_base[name] = C.exact_key(snapshot(obj))

    def check_o2(self):
        changed = []
        for name, obj in self.snap_objs.items():
            try:
                k = C.exact_key(snapshot(obj))
            except Exception as e:   # a snapshot that cannot be taken any more is a change
                k = "snapshot-failed:" + type(e).__name__
            if k != self.snap_base[name]:
                if os.environ.get("VERIF_DEBUG_O2"):
                    a, b = self.snap_base[name], k
                    i = next((j for j in range(min(len(a), len(b))) if a[j] != b[j]), min(len(a), len(b)))
                    sys.stderr.write(f"O2 {name}: ...{a[max(0, i - 120):i + 60]!r} -> ...{b[max(0, i - 120):i + 60]!r}\n")
                changed.append(name)
                self.snap_base[name] = k      # report each mutation once, at the step that made it
        return changed

    def probe(self, name, n=1):
        self.probes[name] = self.probes.get(name, 0) + n

    # ---- argument resolution
    def arg(self, v):
        if isinstance(v, dict):
            if "p" in v and len(v) == 1:
                o = self.pool[v["p"]]
                if isinstance(o, world.BuildFailed):
                    raise o
                return o
            if "h" in v and len(v) == 1:
                if v["h"] not in self.handles:
                    raise Skip(v["h"])
                return self.handles[v["h"]]
            if "lit" in v and len(v) == 1:
                return C.dec(v["lit"])
        return C.dec(v)


def snapshot(obj):
    """public state of a pool object, as canonical form; dictionaries keep their insertion order here
    (the order of a value dictionary is meaningful to the library: it fixes the order of the states)"""
    C.KEEP_ORDER[0] = True
    try:
        return C.canon(obj)
    finally:
        C.KEEP_ORDER[0] = False


# --------------------------------------------------------------------------- seams
class Seam:
    """Wrapper factory handed to an op.  In history mode the n-th invocation of the wrapped
    callable first runs the nested steps scheduled 'at' n (steps of other clients), then
    delegates to the library's own default; in reference mode it only delegates."""

    def __init__(self, ctx, step):
        self.ctx = ctx
        self.step = step
        self.calls = 0
        self.nested = {}
        self.after = set()
        if ctx.mode == "history":
            for n in step.get("nested", []) or []:
                self.nested.setdefault(n["at"], []).extend(n["steps"])
                if n.get("when") == "after":
                    self.after.add(n["at"])
        self.raise_at = None
        f = step.get("fault") if ctx.mode == "history" else None
        if f and f.get("kind") == "seam-raise":
            self.raise_at = int(f.get("at", 0))
            self.raise_exc = INJECTED.get(f.get("exc", "interrupt"), INJECTED["interrupt"])()
        self.raised = False
        self.active = False
        # the SAME public call in the history and in the isolated reference: whether a wrapped callable is passed is
        # decided by the step description alone (in reference mode the wrapper just delegates)
        sf = step.get("fault") or {}
        self.used = bool(step.get("wrap", False)) or bool(step.get("nested")) or sf.get("kind") == "seam-raise"

    def wrap(self, default):
        if not self.used:
            return default
        seam = self

        def wrapper(*a, **kw):
            if not seam.active:
                # the wrapped callable outlived its step (a solution object keeps its mapper and calls it on every
                # query): outside the host step it is the plain callable, whatever happens there belongs to that step
                # - including a failure of the user's callable, if the step that is executing now is armed with one
                cf = seam.ctx.cb_fault
                if cf is not None and not cf["fired"]:
                    if cf["count"] == cf["at"]:
                        cf["fired"] = True
                        seam.ctx.events.append(("cb-raise", cf["step"], cf["at"]))
                        raise INJECTED.get(cf["exc"], INJECTED["interrupt"])()
                    cf["count"] += 1
                return default(*a, **kw)
            n = seam.calls
            seam.calls += 1
            steps = seam.nested.get(n)
            result_first = None
            if steps and n in seam.after and not (seam.raise_at is not None and n == seam.raise_at):
                # the other clients run AFTER the callable has done its work, before the library continues
                result_first = (default(*a, **kw),)
            if steps:
                ctx = seam.ctx
                ctx.events.append(("nest", seam.step["id"], n, [s["id"] for s in steps]))
                ctx.probe("nested_call_events")
                if ctx.depth + 1 > ctx.probes.get("max_nest_depth", 0):
                    ctx.probes["max_nest_depth"] = ctx.depth + 1
                # what the host did to shared objects before it called back is the host's doing, not the nested step's
                pre = ctx.check_o2()
                if pre:
                    ctx.pending_o2.setdefault(seam.step["id"], []).extend(pre)
                ctx.depth += 1
                tr = ctx.active_tracer
                if tr is not None:
                    tr.paused += 1      # an interrupt aimed at one call never fires inside another client's step
                try:
                    for s in steps:
                        exec_step(ctx, s, host=seam.step["id"])
                finally:
                    ctx.depth -= 1
                    if tr is not None:
                        tr.paused -= 1
            if seam.raise_at is not None and n == seam.raise_at:
                # a user-supplied callable (solver, input signal, mapper, dump function) may raise
                seam.raised = True
                seam.ctx.events.append(("seam-raise", seam.step["id"], n))
                raise seam.raise_exc()
            if result_first is not None:
                return result_first[0]
            return default(*a, **kw)
        return wrapper


# --------------------------------------------------------------------------- interrupts
class Tracer:
    def __init__(self, k, exc="interrupt"):
        self.exc = INJECTED.get(exc, INJECTED["interrupt"])()
        self.k = k
        self.count = 0
        self.fired_at = None
        self.paused = 0          # > 0 while the simulator itself drives library code (nested steps, snapshots)
        self.prefix = SRC + os.sep

    def global_trace(self, frame, event, arg):
        if event == "call" and frame.f_code.co_filename.startswith(self.prefix):
            return self.local_trace
        return None

    def local_trace(self, frame, event, arg):
        if event == "line" and self.fired_at is None and not self.paused:
            self.count += 1
            if self.count == self.k:
                self.fired_at = (os.path.relpath(frame.f_code.co_filename, SRC), frame.f_lineno)
                raise self.exc()
        return self.local_trace


# --------------------------------------------------------------------------- step execution
def consumed_handles(step):
    out = []

    def walk(v):
        if isinstance(v, dict):
            if "h" in v and len(v) == 1:
                out.append(v["h"])
            else:
                for x in v.values():
                    walk(x)
        elif isinstance(v, list):
            for x in v:
                walk(x)
    walk(step.get("a", {}))
    return out


def exec_step(ctx, step, host=None):
    spec = OPS[step["op"]]
    a = step.get("a", {})
    fault = step.get("fault") if ctx.mode == "history" else None
    rec = {"id": step["id"], "op": step["op"], "client": step.get("client"), "host": host, "depth": ctx.depth}
    seam = Seam(ctx, step)
    io_fault = fault if fault and fault.get("kind") not in ("interrupt", "seam-raise", "cb-raise") else None
    outer_cb = ctx.cb_fault
    ctx.cb_fault = ({"at": int(fault.get("at", 0)), "count": 0, "fired": False, "exc": fault.get("exc", "callback"), "step": step["id"]}
                    if fault and fault.get("kind") == "cb-raise" else None)
    my_cb = ctx.cb_fault
    ctx.disk.arm(step["id"], io_fault)
    tracer = None
    status = "ok"
    path_r = a.get(spec.reads) if spec.reads else None
    path_w = a.get(spec.writes) if spec.writes else None
    if path_r is not None:
        rec["saw"] = ctx.disk.seen_state(path_r)
        if rec["saw"][0] == "bot":
            rec["saw_cands"] = ctx.disk.candidates(path_r)
    try:
        if fault and fault.get("kind") == "interrupt":
            tracer = Tracer(int(fault["k"]), fault.get("exc", "interrupt"))
            ds = sys.modules.get("schemdraw.drawing_stack")
            ds_saved = (dict(ds.drawing_stack), ds.pause) if ds is not None else None
            old = sys.gettrace()
            outer_tracer = ctx.active_tracer
            ctx.active_tracer = tracer
            sys.settrace(tracer.global_trace)
            seam.active = True
            try:
                res = spec.fn(ctx, a, seam)
            finally:
                seam.active = False
                sys.settrace(old)
                ctx.active_tracer = outer_tracer
        else:
            seam.active = True
            try:
                res = spec.fn(ctx, a, seam)
            finally:
                seam.active = False
    except Skip as e:
        res = None
        status = "skip"
    except (SimInterrupt, SimMemoryError, SimCallbackError) as e:
        res = None
        status = "interrupted"
    except RecursionError:
        raise
    except Exception as e:
        res = e.with_traceback(None)
        status = "exc"
    except BaseException as e:
        # the library translated an injected exception into a BaseException of its own (e.g. cleans up after Ctrl-C and
        # raises a fresh KeyboardInterrupt): still "whatever the library made of it".  Without an injection it is not
        # the harness's business to swallow it.
        injected = ((tracer is not None and tracer.fired_at is not None) or seam.raised
                    or (my_cb is not None and my_cb["fired"]))
        if not injected or not isinstance(e, (KeyboardInterrupt, MemoryError)):
            raise
        res = None
        status = "interrupted"
    fired = ctx.disk.disarm()
    ctx.cb_fault = outer_cb
    if my_cb is not None and my_cb["fired"] and status != "skip":
        if status != "interrupted":
            rec["after_injection"] = status if status != "exc" else "exc:" + type(res).__name__
        status = "interrupted"
        res = None
        rec["cb_raise"] = {"at": my_cb["at"], "exc": my_cb["exc"]}
    if seam.raised and status != "skip":
        if status != "interrupted":
            rec["after_injection"] = status if status != "exc" else "exc:" + type(res).__name__
        status = "interrupted"
        res = None
        rec["seam_raise"] = {"at": seam.raise_at, "exc": fault.get("exc", "interrupt")}
    if tracer is not None and tracer.fired_at is not None and status != "skip":
        # the injected exception fired: whatever the library made of it (propagated, translated into another
        # exception, or swallowed), this step has no counterpart in a fault-free world
        if status != "interrupted":
            rec["after_injection"] = status if status != "exc" else "exc:" + type(res).__name__
            ctx.probe("injected_exception_translated_or_swallowed")
        status = "interrupted"
        res = None
        # schemdraw's `with Drawing()` block is not exception safe (an exception raised while an element is being
        # constructed makes __exit__ fail before it pops the drawing): the cut leaves THIRD-PARTY global state
        # behind, which no listed property speaks about.  The simulator puts that state back (and counts it).
        ds = sys.modules.get("schemdraw.drawing_stack")
        if ds is not None and ds_saved is not None and (dict(ds.drawing_stack) != ds_saved[0] or ds.pause != ds_saved[1]):
            ds.drawing_stack.clear()
            ds.drawing_stack.update(ds_saved[0])
            ds.pause = ds_saved[1]
            ctx.probe("schemdraw_stack_restored_after_injected_exception")
    if tracer is not None:
        rec["interrupt"] = {"k": tracer.k, "lines": tracer.count, "at": list(tracer.fired_at) if tracer.fired_at else None,
                            "exc": fault.get("exc", "interrupt")}
        if tracer.fired_at:
            ctx.events.append(("interrupt", step["id"], tracer.fired_at))
    if fired is not None:
        rec["io_fault"] = {"kind": fired["kind"], "fired": bool(fired.get("fired"))}
        if fired.get("fired"):
            ctx.events.append(("iofault", step["id"], fired["kind"]))
    if path_w is not None:
        if status == "ok" and (step["id"], ctx.disk.key(path_w)) not in ctx.disk.wopened and ctx.disk.key(path_w) in ctx.disk.files:
            # the dump returned without writing (e.g. "content unchanged, skip"): it vouches for the present content
            ctx.disk.state[ctx.disk.key(path_w)] = ("ack", step["id"])
            rec["acked"] = True
        elif status == "ok":
            rec["acked"] = ctx.disk.ack(path_w, step["id"])
        elif status != "skip":
            ctx.disk.nack(path_w, step["id"], status)
    rec["status"] = status
    if status in ("ok", "exc"):
        if spec.handle and status == "ok":
            ctx.handles[step["id"]] = res
            rec["result"] = ["handle", type(res).__name__]
            if spec.snap:
                ctx.watch("h:" + step["id"], res)
            if spec.snap or hasattr(res, "_verif_canon") or spec.handle == "value":
                rec["result"] = ["handle", type(res).__name__, C.canon(res)]
        else:
            try:
                rec["result"] = C.canon(res)
            except Exception as ce:
                rec["result"] = ["uncanonical", type(res).__name__, type(ce).__name__]
        if ctx.mode == "history" and status == "ok" and not callable(res) and (not spec.handle or spec.snap or spec.handle == "value"):
            # O6 speaks about plain values and description objects; a solution object may legitimately finish its
            # work lazily (its public fields may change when it is first queried) - its answers are judged by O1
            try:
                ctx.kept.append((rec, res, C.exact_key(C.canon(res))))
            except Exception:
                pass
        if spec.model is not None and ctx.mode == "history":
            try:
                with model_sandbox():
                    m = spec.model(ctx, a, res, rec)
            except Exception as e:          # a crashing model is a harness problem, never a violation
                import traceback
                m = ["harness-error", f"{type(e).__name__}: {e} {traceback.format_exc()[-600:]}"]
            if m:
                rec["model"] = m
    if seam.nested:
        ran = sorted(n for n in seam.nested if n < seam.calls)
        rec["seam_calls"] = seam.calls
        rec["nested_not_run"] = [s["id"] for n, ss in sorted(seam.nested.items()) if n >= seam.calls for s in ss]
    o2 = ctx.pending_o2.pop(step["id"], []) + ctx.check_o2()
    if o2:
        rec["o2"] = sorted(set(o2))
    if ctx.mode == "history":
        fp = module_fingerprint(ctx)
        if fp not in ctx.fingerprints:
            if ctx.fingerprints:
                rec["module_state_changed"] = True
                ctx.probe("module_state_changed")
            ctx.fingerprints.add(fp)
    ctx.records.append(rec)
    return rec


WATCH = [
    ("CircuitCalculator.Network.transformers", ["remove_short_circuit_elements", "short_circuitify_voltage_sources", "open_circuitify_current_sources",
                                                 "remove_ideal_current_sources", "remove_ideal_voltage_sources", "passive_network"]),
    ("CircuitCalculator.Network.NodalAnalysis.state_space_model", ["state_space_matrices", "nodal_state_space_model"]),
    ("CircuitCalculator.Circuit.circuit", ["transform"]),
    ("CircuitCalculator.Circuit.impedance", ["open_circuit_impedance", "element_impedance"]),
    ("CircuitCalculator.Circuit.state_space_model", ["state_space_model"]),
]
TABLES = [
    ("CircuitCalculator.Circuit.transformers", "transformers"), ("CircuitCalculator.Network.loaders", "network_branch_translators"),
    ("CircuitCalculator.Circuit.dump_load", "circuit_component_translators"), ("CircuitCalculator.dump_load", "serializers"),
    ("CircuitCalculator.dump_load", "deserializers"), ("CircuitCalculator.SignalProcessing.periodic_functions", "fourier_series_mapping"),
    ("CircuitCalculator.SignalProcessing.periodic_functions", "periodic_functions"),
]


def module_fingerprint(ctx):
    """informational watch list (never a violation by itself): default-argument objects of the functions that
    have mutable defaults, the module-level tables, numpy's error state and schemdraw's drawing stack depth"""
    import numpy as np
    parts = []
    for mod, names in WATCH:
        m = sys.modules.get(mod)
        for n in names:
            f = getattr(m, n, None) if m else None
            d = getattr(f, "__defaults__", None)
            parts.append((mod, n, C.exact_key(C.canon(list(d))) if d else None))
    for mod, name in TABLES:
        m = sys.modules.get(mod)
        t = getattr(m, name, None) if m else None
        try:
            parts.append((mod, name, sorted(map(str, t.keys())) if isinstance(t, dict) else (len(t) if t is not None else None)))
        except Exception:
            parts.append((mod, name, type(t).__name__))
    parts.append(("numpy.geterr", sorted(np.geterr().items())))
    ds = sys.modules.get("schemdraw.drawing_stack")
    parts.append(("drawing_stack", len(ds.drawing_stack) if ds else 0))
    # number of module-level names per library module: a new module global (a cache) shows up here
    try:
        for name in sorted(sys.modules):
            if name.startswith("CircuitCalculator."):
                m = sys.modules[name]
                sizes = []
                for k, v in sorted(vars(m).items()):
                    if not k.startswith("__") and isinstance(v, (dict, list, set)):
                        sizes.append((k, len(v)))
                if sizes:
                    parts.append((name, sizes))
    except Exception:
        parts.append("unreadable")          # informational probe: it never makes a run fail
    return C.exact_key(parts)


class model_sandbox:
    """the reference model may build drawings of its own; it must not see (or add to) a `with Schematic()`
    block that a simulated client has open, so it runs on an empty schemdraw drawing stack"""

    def __enter__(self):
        self.ds = sys.modules.get("schemdraw.drawing_stack")
        if self.ds is not None:
            self.saved = dict(self.ds.drawing_stack)
            self.pause = self.ds.pause
            self.ds.drawing_stack.clear()
            self.ds.pause = False

    def __exit__(self, *exc):
        if self.ds is not None:
            self.ds.drawing_stack.clear()
            self.ds.drawing_stack.update(self.saved)
            self.ds.pause = self.pause
        return False


def run_history(plan, coverage=False):
    ctx = Ctx(plan, "history")
    cov = set()
    if coverage:
        prefix = SRC + os.sep

        def ltrace(frame, event, arg):
            if event == "line":
                cov.add((frame.f_code.co_filename[len(prefix):], frame.f_lineno))
            return ltrace

        def gtrace(frame, event, arg):
            if event == "call" and frame.f_code.co_filename.startswith(prefix):
                cov.add((frame.f_code.co_filename[len(prefix):], frame.f_lineno))
                return ltrace
            return None
        sys.settrace(gtrace)
    try:
        for s in plan["steps"]:
            exec_step(ctx, s)
    finally:
        if coverage:
            sys.settrace(None)
    # O6: a result handed to the caller must not change afterwards (the caller never touches it)
    for rec, res, key in ctx.kept:
        try:
            now = C.exact_key(C.canon(res))
        except Exception as e:
            now = "canon-failed:" + type(e).__name__
        if now != key:
            rec["o6"] = True
    ctx.probes["module_fingerprints"] = len(ctx.fingerprints)
    if ctx.idsim.reused:
        ctx.probes["simulated_id_reuse"] = ctx.idsim.reused
    return {"coverage": sorted(cov), "records": ctx.records, "events": [list(map(_ev, e)) for e in ctx.events], "probes": ctx.probes,
            "disk_probes": ctx.disk.probes, "open_handles": ctx.disk.open_handles}


def _ev(x):
    if isinstance(x, tuple):
        return list(x)
    return x


def index_steps(plan):
    """flatten: id -> step (top-level and nested)"""
    idx = {}

    def walk(steps):
        for s in steps:
            idx[s["id"]] = s
            for n in s.get("nested", []) or []:
                walk(n["steps"])
    walk(plan["steps"])
    return idx


def run_chain(plan, chain_ids, perturb=0):
    """reference evaluation: fresh objects, only the given steps, no nesting, no faults.
    perturb > 0 shifts the heap layout first (used to tell layout-sensitive numerics from history dependence)"""
    junk = []
    if perturb:
        import numpy as np
        for k in range(7 * perturb):
            junk.append(np.empty(13 + 8 * k + perturb, dtype=np.uint8))
            junk.append(bytearray(33 + 17 * k))
    ctx = Ctx(plan, "ref")
    idx = index_steps(plan)
    rec = None
    for sid in chain_ids:
        rec = exec_step(ctx, idx[sid])
    return rec
