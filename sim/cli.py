import json
import os
import sys
import time

HERE = os.path.dirname(os.path.dirname(os.path.abspath(__file__)))
OUT = os.path.join(HERE, "out")


def gen_plan(prop, seed, overrides=None):
    if prop == "C20":
        from . import gen_c20
        return gen_c20.plan(seed, overrides)
    if prop == "C17":
        from . import gen_c17
        return gen_c17.plan(seed, overrides)
    if prop == "C15":
        from . import gen_c15
        return gen_c15.plan(seed, overrides)
    raise SystemExit(f"unknown property {prop}")


def load_ops(prop=None):
    from . import boot
    if prop == "C15":
        boot.boot_drawing()
    else:
        boot.boot()
    from . import ops_net, ops_cir, ops_ld  # noqa: F401  (register ops)
    # importing is not "running an operation": pre-import everything so forked children start warm
    ops_net._mods(); ops_cir._mods(); ops_ld._mods()
    import yaml, json, scipy.signal  # noqa: F401
    import CircuitCalculator.SignalProcessing.periodic_functions, CircuitCalculator.SignalProcessing.one_sided_functions  # noqa: F401
    if prop == "C15":
        from . import ops_draw  # noqa: F401


def cmd_one(argv):
    from .seed import run_seed
    prop, i = argv[0], int(argv[1])
    vseed = int(os.environ.get("VERIF_SEED", "0"))
    load_ops(prop)
    from . import isolate
    seed = run_seed(vseed, "quick", prop, i)
    plan = gen_plan(prop, seed)
    t0 = time.time()
    res = isolate.execute(plan)
    dt = time.time() - t0
    if "-v" in argv:
        print(json.dumps(plan, indent=1)[:20000])
        for r in res["records"]:
            print(r["id"], r["op"], r["status"], str(r.get("result"))[:160], r.get("o2", ""), r.get("model", ""))
    print("seed", seed, "steps", res["stats"]["steps"], "refs", res["stats"]["ref_forks"], f"{dt:.2f}s",
          res["schedule_digest"], res["result_digest"])
    print("status", res["stats"]["status"], "faults", res["stats"]["faults_fired"])
    for v in res["violations"]:
        print("VIOL", v)
    return 0


def _no_text(r0):
    if isinstance(r0, list) and len(r0) >= 2 and r0[0] == "handle" and r0[1] == "_Text":
        return ["handle", "_Text"]
    return r0


def cmd_runjson(argv):
    """internal: one run, canonical results as JSON on stdout (used to confirm a hash-seed digest mismatch tolerantly)"""
    from .seed import run_seed
    from . import canon
    prop, i = argv[0], int(argv[1])
    vseed = int(os.environ.get("VERIF_SEED", "0"))
    load_ops(prop)
    from . import isolate
    plan = gen_plan(prop, run_seed(vseed, "", prop, i), json.loads(os.environ.get("VERIF_OVERRIDES", "null")))
    res = isolate.execute(plan, want_refs=False)
    out = [[r["id"], r["status"], canon.enc(_no_text(r.get("result")))] for r in res["records"]]
    sys.stdout.write("RUNJSON " + json.dumps(out) + "\n")
    return 0


def main(argv):
    if not argv:
        print(__doc__)
        return 2
    cmd, rest = argv[0], argv[1:]
    if cmd == "one":
        return cmd_one(rest)
    if cmd == "runjson":
        return cmd_runjson(rest)
    if cmd == "genplan":
        sys.stdout.write("PLAN " + json.dumps(gen_plan(rest[0], int(rest[1]), json.loads(os.environ.get("VERIF_OVERRIDES", "null")))) + "\n")
        return 0
    if cmd == "runplan":
        from . import canon
        plan = json.load(open(rest[0]))["plan"]
        load_ops(plan["property"])
        from . import isolate
        res = isolate.execute(plan, want_refs=False)
        sys.stdout.write("RUNJSON " + json.dumps([[r["id"], r["status"], canon.enc(_no_text(r.get("result")))] for r in res["records"]]) + "\n")
        return 0
    from . import driver
    return driver.main(cmd, rest)
