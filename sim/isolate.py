"""Process model and the isolation oracle.

The calling process has imported the library and never run an operation (a zygote).  A
history runs in a forked child H; "the same call in isolation" is realised literally: a
second forked child builds fresh objects from the recipes and runs only the step's
dependency chain as the first and only activity of a new process.
"""
import json
import os
import pickle
import select
import signal
import time
import traceback

from . import canon as C
from . import engine
from .seed import digest


class HarnessTimeout(Exception):
    pass


class HarnessChildError(Exception):
    pass


_SCRATCH = None


def scratch_dir():
    global _SCRATCH
    if _SCRATCH is None:
        base = os.path.join(os.path.dirname(os.path.dirname(os.path.abspath(__file__))), "out", "scratch")
        os.makedirs(base, exist_ok=True)
        _SCRATCH = base
    return _SCRATCH


def fork_call(fn, timeout=60.0):
    r, w = os.pipe()
    pid = os.fork()
    if pid == 0:
        code = 0
        try:
            os.close(r)
            os.chdir(scratch_dir())     # anything that escapes the simulated device lands in a scratch directory
            try:
                data = pickle.dumps(("ok", fn()), protocol=4)
            except BaseException:
                data = pickle.dumps(("err", traceback.format_exc()), protocol=4)
            with os.fdopen(w, "wb") as f:
                f.write(data)
        except BaseException:
            code = 3
        finally:
            os._exit(code)
    os.close(w)
    chunks = []
    deadline = time.monotonic() + timeout
    try:
        while True:
            left = deadline - time.monotonic()
            if left <= 0:
                os.kill(pid, signal.SIGKILL)
                os.waitpid(pid, 0)
                raise HarnessTimeout(f"child exceeded {timeout}s")
            rl, _, _ = select.select([r], [], [], min(left, 1.0))
            if rl:
                b = os.read(r, 1 << 16)
                if not b:
                    break
                chunks.append(b)
    finally:
        os.close(r)
    _, st = os.waitpid(pid, 0)
    if not chunks:
        raise HarnessChildError(f"child died without output (status {st})")
    kind, val = pickle.loads(b"".join(chunks))
    if kind == "err":
        raise HarnessChildError(val)
    return val


# --------------------------------------------------------------------------- chains
def chain_for(plan, idx, recs_by_id, sid, _seen=None):
    """ordered list of step ids whose effects step `sid` depends on (producers of consumed
    handles, the acknowledged writer of a file it reads), ending with sid itself.
    Returns None when the step has no isolated counterpart (reads unacknowledged content)."""
    order = []
    seen = set()

    def visit(s):
        if s in seen:
            return True
        seen.add(s)
        step = idx[s]
        for h in engine.consumed_handles(step):
            if h not in idx:
                return False
            if not visit(h):
                return False
        rec = recs_by_id.get(s)
        saw = rec.get("saw") if rec else None
        if saw:
            if saw[0] == "ack":
                if saw[1] not in idx or not visit(saw[1]):
                    return False
            elif saw[0] != "absent":
                return False          # unacknowledged / in-flight content: nothing is promised
        order.append(s)
        return True

    return order if visit(sid) else None


def chain_key(idx, chain):
    pos = {s: i for i, s in enumerate(chain)}

    def norm(v):
        if isinstance(v, dict):
            if "h" in v and len(v) == 1:
                return {"h": pos.get(v["h"], "?")}
            return {k: norm(x) for k, x in sorted(v.items())}
        if isinstance(v, list):
            return [norm(x) for x in v]
        return v
    return json.dumps([[idx[s]["op"], norm(idx[s].get("a", {})), bool(idx[s].get("wrap"))] for s in chain], sort_keys=True)


def is_faulted(rec):
    """step whose own outcome is excused by an injected fault that fired"""
    if rec.get("status") == "interrupted":
        return True
    f = rec.get("io_fault")
    if f and f.get("fired") and f["kind"] in ("open-fail", "read-eio", "enospc", "write-eio", "flush-eio"):
        return True
    return False


# --------------------------------------------------------------------------- one run
def execute(plan, want_refs=True, timeout=120.0, coverage=False):
    """run the history in a child, the references in further children, evaluate the oracles.
    Returns a dict with violations, digests and reach statistics."""
    prop = plan["property"]
    hist = fork_call(lambda: engine.run_history(plan, coverage), timeout)
    recs = hist["records"]
    idx = engine.index_steps(plan)
    by_id = {r["id"]: r for r in recs}
    violations = []
    stats = {"steps": len(recs), "ops": {}, "faults_fired": {}, "interrupt_sites": {}, "status": {},
             "refs": 0, "ref_forks": 0, "o1_compared": 0, "o3_groups": 0}
    for r in recs:
        stats["ops"][r["op"]] = stats["ops"].get(r["op"], 0) + 1
        stats["status"][r["status"]] = stats["status"].get(r["status"], 0) + 1
        it = r.get("interrupt")
        if it and it.get("at"):
            fk = "interrupt" if it.get("exc", "interrupt") == "interrupt" else "inject-" + it["exc"]
            stats["faults_fired"][fk] = stats["faults_fired"].get(fk, 0) + 1
            site = f"{it['at'][0]}:{it['at'][1]}"
            stats["interrupt_sites"][site] = stats["interrupt_sites"].get(site, 0) + 1
        f = r.get("io_fault")
        if f and f.get("fired"):
            stats["faults_fired"][f["kind"]] = stats["faults_fired"].get(f["kind"], 0) + 1
        if r.get("seam_raise"):
            stats["faults_fired"]["seam-raise"] = stats["faults_fired"].get("seam-raise", 0) + 1
        if r.get("cb_raise"):
            stats["faults_fired"]["cb-raise"] = stats["faults_fired"].get("cb-raise", 0) + 1

    def viol(oracle, rec, kind, detail):
        step = idx[rec["id"]]
        sub = step.get("a", {}).get("f") or step.get("a", {}).get("q") or ""
        violations.append({"property": prop, "oracle": oracle, "step": rec["id"], "op": rec["op"], "sub": sub,
                           "kind": kind, "detail": str(detail)[:400]})

    # ---- O2: argument immutability (recorded by the history itself)
    for r in recs:
        if prop == "C15":
            break       # C15 does not state immutability: an idempotent in-place normalisation keeps every translation equal;
                        # residue is judged through the later steps (O5); the snapshot stays a probe
        for name in r.get("o2", []):
            viol("O2", r, "mutated:" + obj_kind(plan, idx, name), f"the public state of {name} reads differently after step {r['id']} ({r['op']}) than before it")

    # ---- O6: results must not change after they were returned
    if prop == "C20":
        for r in recs:
            if r.get("o6"):
                viol("O6", r, "result-changed-after-return", f"the value returned by step {r['id']} ({r['op']}) was different at the end of the history")

    # ---- O5: model agreement (only where the property asks for it)
    if prop in ("C17", "C15"):
        for r in recs:
            m = r.get("model")
            if m and m[0] == "violation":
                viol("O5", r, m[1], m[2])
    for r in recs:
        m = r.get("model")
        if m and m[0] == "harness-error":
            raise HarnessChildError(f"model crashed at {r['id']} {r['op']}: {m[1]}")

    # ---- chains, O3 and O1
    groups = {}
    chains = {}
    for r in recs:
        if r["status"] not in ("ok", "exc") or is_faulted(r):
            continue
        ch = chain_for(plan, idx, by_id, r["id"])
        if ch is None:
            continue
        # a chain containing a step that did not complete normally in the history has no counterpart
        if any(by_id.get(s, {}).get("status") not in ("ok", "exc") or is_faulted(by_id.get(s, {})) for s in ch[:-1]):
            continue
        if any(by_id[s]["status"] == "exc" for s in ch[:-1] if engine.OPS[idx[s]["op"]].handle):
            continue
        key = chain_key(idx, ch)
        chains[r["id"]] = (ch, key)
        groups.setdefault(key, []).append(r)
    stats["o3_groups"] = sum(1 for g in groups.values() if len(g) > 1)
    def is_text(rec):
        r0 = rec.get("result")
        return isinstance(r0, list) and len(r0) >= 2 and r0[0] == "handle" and r0[1] == "_Text"

    for key, g in groups.items():
        first = g[0]
        for other in g[1:]:
            if is_text(first) or is_text(other) or engine.OPS[first["op"]].writes:
                continue          # judged through what is loaded from it, not letter by letter / by dump's return value
            if prop == "C15" and first["op"] in ("sc.translate", "sc.solve"):
                continue          # node labels are free in C15 ("up to a renaming of nodes"): judged by isomorphism (O5)
            d = C.diff(first["result"], other["result"])
            if d:
                viol("O3", other, "repeat-differs", f"same call as {first['id']} gave a different result: {d}")
                break
    if want_refs and prop == "C20":
        memo = {}
        for r in recs:
            if r["id"] not in chains:
                continue
            ch, key = chains[r["id"]]
            if key not in memo:
                stats["ref_forks"] += 1
                ref = fork_call(lambda ch=ch: engine.run_chain(plan, ch), timeout)
                memo[key] = ref
            ref = memo[key]
            stats["refs"] += 1
            if ref["status"] not in ("ok", "exc"):
                # the chain cannot even be evaluated in isolation (a producer that worked in the history fails alone)
                viol("O1", r, "isolated-run-differs-in-kind", f"in isolation the chain ends with status {ref['status']} at {ref['id']}")
                continue
            stats["o1_compared"] += 1
            d = None if (is_text(r) or engine.OPS[r["op"]].writes) else C.diff(r["result"], ref["result"])
            if d and numeric_only(r["result"], ref["result"]):
                # before a purely numerical difference is reported: is the isolated answer itself stable when only the
                # memory layout of the process changes?  (BLAS kernels may round differently for other alignments; an
                # ill-conditioned system amplifies that - not a property of the history)
                stable = True
                for salt in (1, 2):
                    alt = fork_call(lambda ch=ch, salt=salt: engine.run_chain(plan, ch, perturb=salt), timeout)
                    stats["ref_forks"] += 1
                    if alt["status"] in ("ok", "exc") and C.diff(alt["result"], ref["result"]):
                        stable = False
                if not stable:
                    stats["layout_sensitive_unjudged"] = stats.get("layout_sensitive_unjudged", 0) + 1
                    d = None
            if d:
                viol("O1", r, "differs-from-isolated", d)
            if ref.get("o2"):
                # the isolated run itself mutated its arguments: report against the step (O2 seen in isolation)
                pass
    # the schedule digest covers what the harness decides (the explicit plan); everything the library does with it -
    # names of temporary files it invents, the line an injected exception lands on, how often it calls a seam -
    # is library behaviour and may legitimately depend on pid, time or hash seed
    sched = digest([plan["steps"], sorted(plan["recipes"].items(), key=lambda kv: kv[0])])
    resd = digest([[r["id"], r["status"], None if is_text(r) else C.rounded(r.get("result"))] for r in recs])
    discarded = {}
    for r in recs:
        if r.get("discarded"):
            discarded[r["discarded"]] = discarded.get(r["discarded"], 0) + 1
    return {"coverage": hist.get("coverage", []), "discarded": discarded, "violations": violations, "stats": stats, "schedule_digest": sched, "result_digest": resd,
            "probes": hist["probes"], "disk_probes": hist["disk_probes"], "records": recs,
            "open_handles": hist["open_handles"]}


def numeric_only(a, b):
    """True when two canonical forms have the same shape and differ in numbers only"""
    if isinstance(a, (int, float, complex)) and not isinstance(a, bool) and isinstance(b, (int, float, complex)) and not isinstance(b, bool):
        return True
    if type(a) != type(b):
        return False
    if isinstance(a, list):
        return len(a) == len(b) and all(numeric_only(x, y) for x, y in zip(a, b))
    return a == b


def obj_kind(plan, idx, name):
    if name.startswith("p:"):
        return plan["recipes"].get(name[2:], {}).get("kind", "?")
    if name.startswith("h:"):
        s = idx.get(name[2:])
        return "derived:" + (s["op"] if s else "?")
    return "?"
