"""Shared recipe generators: networks, circuits, shared argument objects, descriptions."""
from .canon import enc

NODE_ALPHABETS = [
    ["0", "1", "2", "3", "4", "5"],
    ["0", "a", "b", "c", "d", "e"],
    ["0", "10", "9", "2", "11", "1"],          # '10' < '9' lexicographically
    ["0", "N1", "n2", "Ω", "μ", "x"],          # non-ASCII labels
    ["gnd", "in", "out", "mid", "p", "q"],
]

R_VALUES = [1, 2, 10, 47, 100.0, 1e3, 0.5, 3.3, 220]
# values with many significant digits / extreme magnitudes / integers beyond 2**53 (loaders must pass them on exactly)
FINE_VALUES = [123456789.12345679, 0.1234567890123456, 1e-13, 7.000000000000001, 9007199254740993, 4.7e15, 3.0000001e-7, 2 ** 0.5]
C_VALUES = [1e-3, 1e-6, 4.7e-4, 1.0]
L_VALUES = [1e-3, 0.1, 1.0, 2.2e-2]
V_VALUES = [1, 5, 12, -3, 0.5, 230]
I_VALUES = [1, 0.1, -2, 1e-3, 4]
W_VALUES = [1.0, 10.0, 100.0, 314.0, 2.5]
PHI_VALUES = [0, 0.5, -1.0, 1.5707963267948966, 3.0]


def cx(rng):
    if rng.random() < 0.08:
        # a tiny part next to a large one, many digits
        return rng.choice([complex(1e22, 1e-9), complex(3.0000001e-7, 123456789.12345679), complex(-0.0, 2.0), complex(0.1 + 0.2, -1e-300)])
    re = rng.choice([0, 1, 2.5, -1, 10, 0.1])
    im = rng.choice([0, 1, -2, 0.5, 7, -0.25])
    if re == 0 and im == 0:
        re = 1
    return complex(re, im)


def element_names(rng, n):
    base = rng.choice([
        ["R1", "R2", "R3", "R4", "R5", "R6", "R7", "R8", "R9", "R10", "R11", "R12"],
        ["Ra", "Is", "L", "Vs", "Iq", "Uq", "C", "Z1", "Y2", "G", "Rb", "Rc"],
        ["x10", "x9", "x2", "x1", "x11", "x3", "x20", "x4", "x5", "x6", "x7", "x8"],
        ["Rμ", "RΩ", "Vä", "I1", "I2", "V1", "V2", "Z", "Y", "S", "O", "P"],
        # names that are different strings but collide after case folding / Unicode normalisation / stripping
        ["R1", "r1", "R\u2081", "R\u03a9", "R\u2126", "Iq", "iq", "IQ", "\uff32\uff11", "Vs", "vs", "VS"],
    ])
    names = list(base)
    rng.shuffle(names)
    return names[:n]


PASSIVE = ["resistor", "impedance", "conductor", "admittance", "load"]


def passive_element(rng, name):
    k = rng.choice(PASSIVE)
    if k == "resistor":
        return {"k": k, "name": name, "args": {"R": rng.choice(R_VALUES)}}
    if k == "conductor":
        return {"k": k, "name": name, "args": {"G": 1 / rng.choice(R_VALUES)}}
    if k == "impedance":
        return {"k": k, "name": name, "args": {"Z": enc(cx(rng) * rng.choice([1, 10, 100]))}}
    if k == "admittance":
        return {"k": k, "name": name, "args": {"Y": enc(cx(rng) * rng.choice([1, 0.1, 0.01]))}}
    return {"k": "load", "name": name, "args": {"P": rng.choice([1, 10, 60]), "V_ref": rng.choice([5, 12, 230])}}


def source_element(rng, name, complex_values):
    k = rng.choice(["voltage_source", "voltage_source_lossy", "current_source", "current_source_lossy"])
    v = (lambda x: enc(x * cx(rng))) if complex_values else (lambda x: x)
    if k == "voltage_source":
        return {"k": "voltage_source", "name": name, "args": {"V": v(rng.choice(V_VALUES))}}
    if k == "voltage_source_lossy":
        return {"k": "voltage_source", "name": name, "args": {"V": v(rng.choice(V_VALUES)), "Z": v(rng.choice(R_VALUES))}}
    if k == "current_source":
        return {"k": "current_source", "name": name, "args": {"I": v(rng.choice(I_VALUES))}}
    return {"k": "current_source", "name": name, "args": {"I": v(rng.choice(I_VALUES)), "Y": v(1 / rng.choice(R_VALUES))}}


def gen_network(rng, degenerate=False):
    labels = list(rng.choice(NODE_ALPHABETS))
    n_nodes = rng.randint(2, 5)
    zero = labels[0]
    nodes = labels[:n_nodes]
    n_br = rng.randint(max(2, n_nodes - 1), min(10, n_nodes + 4))
    names = element_names(rng, n_br)
    complex_values = rng.random() < 0.4
    branches = []
    # spanning tree of passive elements keeps the network connected
    order = nodes[:]
    rng.shuffle(order)
    for i in range(1, len(order)):
        a, b = order[i], rng.choice(order[:i])
        if rng.random() < 0.5:
            a, b = b, a
        branches.append({"n1": a, "n2": b, "el": passive_element(rng, names[len(branches)])})
    n_src = 0
    while len(branches) < n_br:
        a, b = rng.sample(nodes, 2)
        name = names[len(branches)]
        r = rng.random()
        if r < 0.45 or (n_src == 0 and len(branches) == n_br - 1):
            el = source_element(rng, name, complex_values)
            n_src += 1
        elif r < 0.85:
            el = passive_element(rng, name)
        elif r < 0.93:
            el = {"k": "open_circuit", "name": name, "args": {}}
        else:
            el = {"k": "short_circuit", "name": name, "args": {}}
        branches.append({"n1": a, "n2": b, "el": el})
    rng.shuffle(branches)
    rec = {"kind": "network", "branches": branches}
    if rng.random() < 0.3:
        rec["np"] = True          # element values are numpy scalars
    if zero != "0" or rng.random() < 0.5:
        rec["zero"] = zero
    if degenerate:
        d = rng.choice(["floating", "dup", "vloop", "selfloop"])
        if d == "floating":
            rec["zero"] = "nowhere"
        elif d == "dup" and len(branches) > 1:
            branches[1]["el"]["name"] = branches[0]["el"]["name"]
        elif d == "vloop":
            a, b = nodes[0], nodes[1]
            branches.append({"n1": a, "n2": b, "el": {"k": "voltage_source", "name": "Vx1", "args": {"V": 1}}})
            branches.append({"n1": a, "n2": b, "el": {"k": "voltage_source", "name": "Vx2", "args": {"V": 2}}})
        else:
            branches.append({"n1": nodes[0], "n2": nodes[0], "el": {"k": "resistor", "name": "Rself", "args": {"R": 1}}})
    return rec


def gen_ssm_network(rng):
    """a network shaped like transform_circuit(w=0) of an RC/RL circuit: capacitors are admittances with
    Y=0, inductances impedances with Z=0; returns (recipe, c_values, l_values)"""
    t = rng.choice(["rc", "rl", "rlc", "rc2"])
    R, R2 = rng.choice(R_VALUES), rng.choice(R_VALUES)
    vs = {"k": "voltage_source", "name": "Vs", "args": {"V": rng.choice(V_VALUES)}}
    C = {"k": "admittance", "name": "C", "args": {"Y": 0}}
    L = {"k": "impedance", "name": "L", "args": {"Z": 0}}
    if t == "rc":
        br = [("1", "0", vs), ("1", "2", {"k": "resistor", "name": "R", "args": {"R": R}}), ("2", "0", C)]
        cv, lv = {"C": rng.choice(C_VALUES)}, {}
    elif t == "rl":
        br = [("1", "0", vs), ("1", "2", {"k": "resistor", "name": "R", "args": {"R": R}}), ("2", "0", L)]
        cv, lv = {}, {"L": rng.choice(L_VALUES)}
    elif t == "rlc":
        br = [("1", "0", vs), ("1", "2", {"k": "resistor", "name": "R", "args": {"R": R}}), ("2", "3", L), ("3", "0", C)]
        cv, lv = {"C": rng.choice(C_VALUES)}, {"L": rng.choice(L_VALUES)}
    else:
        C2 = {"k": "admittance", "name": "C2", "args": {"Y": 0}}
        br = [("1", "0", {"k": "current_source", "name": "Is", "args": {"I": rng.choice(I_VALUES)}}),
              ("1", "0", {"k": "resistor", "name": "R", "args": {"R": R}}), ("1", "2", {"k": "resistor", "name": "R2", "args": {"R": R2}}),
              ("1", "0", C), ("2", "0", C2)]
        cv, lv = {"C": rng.choice(C_VALUES), "C2": rng.choice(C_VALUES)}, {}
        if rng.random() < 0.5:
            cv = {"C2": cv["C2"], "C": cv["C"]}          # insertion order of a value dictionary is the state order
    return ({"kind": "network", "branches": [{"n1": a, "n2": b, "el": e} for a, b, e in br]}, cv, lv)


# --------------------------------------------------------------------------- circuits
def gen_circuit(rng, degenerate=False, dynamic=None):
    """component circuit over every constructor of components.py"""
    labels = list(rng.choice(NODE_ALPHABETS))
    n_nodes = rng.randint(2, 4)
    nodes = labels[:n_nodes]
    comps = []
    names = element_names(rng, 12)
    dynamic = rng.random() < 0.5 if dynamic is None else dynamic

    def nm():
        return names[len(comps)]
    order = nodes[:]
    rng.shuffle(order)
    for i in range(1, len(order)):
        a, b = order[i], rng.choice(order[:i])
        k = rng.choice(["resistor", "resistor", "impedance", "lamp", "resistive_load", "conductance"] if not dynamic
                       else ["resistor", "resistor", "capacitor", "inductance", "resistor"])
        comps.append(_passive_component(rng, k, nm(), [a, b]))
    n_extra = rng.randint(1, 5)
    have_source = False
    for j in range(n_extra):
        a, b = rng.sample(nodes, 2)
        r = rng.random()
        if r < 0.55 or (not have_source and j == n_extra - 1):
            comps.append(_source_component(rng, nm(), [a, b], dynamic))
            have_source = True
        elif r < 0.9:
            k = rng.choice(["resistor", "capacitor", "inductance", "impedance", "admittance", "conductance", "lamp"])
            comps.append(_passive_component(rng, k, nm(), [a, b]))
        else:
            comps.append({"ctor": "short_circuit", "id": nm(), "nodes": [a, b], "args": {}})
    rng.shuffle(comps)
    if rng.random() < 0.6:
        comps.insert(rng.randint(0, len(comps)), {"ctor": "ground", "id": "gnd", "nodes": [rng.choice(nodes)]})
    if degenerate:
        d = rng.choice(["dup", "two_grounds", "empty"])
        if d == "dup" and len(comps) > 1:
            comps[1]["id"] = comps[0]["id"]
        elif d == "two_grounds":
            comps.append({"ctor": "ground", "id": "gnd2", "nodes": [nodes[-1]]})
            comps.append({"ctor": "ground", "id": "gnd3", "nodes": [nodes[0]]})
        else:
            comps = []
    return {"kind": "circuit", "components": comps}


def _passive_component(rng, k, name, nodes):
    if k == "resistor":
        return {"ctor": k, "id": name, "nodes": nodes, "args": {"R": rng.choice(R_VALUES)}}
    if k == "conductance":
        return {"ctor": k, "id": name, "nodes": nodes, "args": {"G": 1 / rng.choice(R_VALUES)}}
    if k == "capacitor":
        return {"ctor": k, "id": name, "nodes": nodes, "args": {"C": rng.choice(C_VALUES)}}
    if k == "inductance":
        return {"ctor": k, "id": name, "nodes": nodes, "args": {"L": rng.choice(L_VALUES)}}
    if k == "impedance":
        return {"ctor": k, "id": name, "nodes": nodes, "args": {"Z": enc(cx(rng) * 10)}}
    if k == "admittance":
        return {"ctor": k, "id": name, "nodes": nodes, "args": {"Y": enc(cx(rng) * 0.1)}}
    return {"ctor": k, "id": name, "nodes": nodes, "args": {"P": rng.choice([1, 10, 60]), "V_ref": rng.choice([5, 12, 230])}}


def _source_component(rng, name, nodes, dynamic):
    kinds = ["dc_voltage_source", "dc_current_source", "ac_voltage_source", "ac_current_source",
             "complex_voltage_source", "periodic_voltage_source", "periodic_current_source"]
    if dynamic:
        kinds = ["dc_voltage_source", "dc_current_source", "ac_voltage_source", "dc_voltage_source"]
    k = rng.choice(kinds)
    lossy = rng.random() < 0.4
    if k == "dc_voltage_source":
        return {"ctor": k, "id": name, "nodes": nodes, "args": {"V": rng.choice(V_VALUES), **({"R": rng.choice(R_VALUES)} if lossy else {})}}
    if k == "dc_current_source":
        return {"ctor": k, "id": name, "nodes": nodes, "args": {"I": rng.choice(I_VALUES), **({"G": 1 / rng.choice(R_VALUES)} if lossy else {})}}
    if k == "ac_voltage_source":
        return {"ctor": k, "id": name, "nodes": nodes, "args": {"V": rng.choice(V_VALUES), "w": rng.choice(W_VALUES), "phi": rng.choice(PHI_VALUES),
                                                                  **({"R": rng.choice(R_VALUES)} if lossy else {})}}
    if k == "ac_current_source":
        return {"ctor": k, "id": name, "nodes": nodes, "args": {"I": rng.choice(I_VALUES), "w": rng.choice(W_VALUES), "phi": rng.choice(PHI_VALUES),
                                                                  **({"G": 1 / rng.choice(R_VALUES)} if lossy else {})}}
    if k == "complex_voltage_source":
        return {"ctor": k, "id": name, "nodes": nodes, "args": {"V": enc(cx(rng) * rng.choice(V_VALUES)), **({"Z": enc(cx(rng) * 10)} if lossy else {})}}
    if k == "periodic_voltage_source":
        return {"ctor": k, "id": name, "nodes": nodes, "args": {"wavetype": rng.choice(["rect", "tri", "saw", "cos", "sin"]), "V": rng.choice(V_VALUES),
                                                                  "w": rng.choice(W_VALUES), "phi": rng.choice(PHI_VALUES), **({"R": rng.choice(R_VALUES)} if lossy else {})}}
    return {"ctor": "periodic_current_source", "id": name, "nodes": nodes, "args": {"wavetype": rng.choice(["rect", "tri", "saw", "cos", "sin"]),
                                                                                    "I": rng.choice(I_VALUES), "w": rng.choice(W_VALUES), "phi": rng.choice(PHI_VALUES)}}


def gen_template_circuit(rng):
    """well-posed templates that make the dynamic analyses (transient, state space) succeed"""
    t = rng.choice(["divider", "rc", "rl", "rlc", "two_source", "periodic_rc", "ac_rc"])
    R1, R2 = rng.choice(R_VALUES), rng.choice(R_VALUES)
    V = rng.choice(V_VALUES)
    g = {"ctor": "ground", "id": "gnd", "nodes": ["0"]}
    if t == "divider":
        comps = [{"ctor": "dc_voltage_source", "id": "Vs", "nodes": ["1", "0"], "args": {"V": V}},
                 {"ctor": "resistor", "id": "R1", "nodes": ["1", "2"], "args": {"R": R1}},
                 {"ctor": "resistor", "id": "R2", "nodes": ["2", "0"], "args": {"R": R2}}, g]
    elif t == "rc":
        comps = [{"ctor": "dc_voltage_source", "id": "Vs", "nodes": ["1", "0"], "args": {"V": V}},
                 {"ctor": "resistor", "id": "R", "nodes": ["1", "2"], "args": {"R": R1}},
                 {"ctor": "capacitor", "id": "C", "nodes": ["2", "0"], "args": {"C": rng.choice(C_VALUES)}}, g]
    elif t == "rl":
        comps = [{"ctor": "dc_voltage_source", "id": "Vs", "nodes": ["1", "0"], "args": {"V": V}},
                 {"ctor": "resistor", "id": "R", "nodes": ["1", "2"], "args": {"R": R1}},
                 {"ctor": "inductance", "id": "L", "nodes": ["2", "0"], "args": {"L": rng.choice(L_VALUES)}}, g]
    elif t == "rlc":
        comps = [{"ctor": "dc_voltage_source", "id": "Vs", "nodes": ["1", "0"], "args": {"V": V}},
                 {"ctor": "resistor", "id": "R", "nodes": ["1", "2"], "args": {"R": R1}},
                 {"ctor": "inductance", "id": "L", "nodes": ["2", "3"], "args": {"L": rng.choice(L_VALUES)}},
                 {"ctor": "capacitor", "id": "C", "nodes": ["3", "0"], "args": {"C": rng.choice(C_VALUES)}}, g]
    elif t == "two_source":
        comps = [{"ctor": "dc_voltage_source", "id": "V1", "nodes": ["1", "0"], "args": {"V": V}},
                 {"ctor": "dc_current_source", "id": "I1", "nodes": ["0", "2"], "args": {"I": rng.choice(I_VALUES)}},
                 {"ctor": "resistor", "id": "R1", "nodes": ["1", "2"], "args": {"R": R1}},
                 {"ctor": "resistor", "id": "R2", "nodes": ["2", "0"], "args": {"R": R2}},
                 {"ctor": "capacitor", "id": "C", "nodes": ["2", "0"], "args": {"C": rng.choice(C_VALUES)}}]
    elif t == "periodic_rc":
        comps = [{"ctor": "periodic_voltage_source", "id": "Vs", "nodes": ["1", "0"],
                  "args": {"wavetype": rng.choice(["rect", "tri", "saw"]), "V": V, "w": rng.choice(W_VALUES), "phi": rng.choice(PHI_VALUES)}},
                 {"ctor": "resistor", "id": "R", "nodes": ["1", "2"], "args": {"R": R1}},
                 {"ctor": "capacitor", "id": "C", "nodes": ["2", "0"], "args": {"C": rng.choice(C_VALUES)}}, g]
    else:
        comps = [{"ctor": "ac_voltage_source", "id": "Vs", "nodes": ["1", "0"], "args": {"V": V, "w": rng.choice(W_VALUES), "phi": rng.choice(PHI_VALUES)}},
                 {"ctor": "resistor", "id": "R", "nodes": ["1", "2"], "args": {"R": R1}},
                 {"ctor": "capacitor", "id": "C", "nodes": ["2", "0"], "args": {"C": rng.choice(C_VALUES)}},
                 {"ctor": "dc_current_source", "id": "Iq", "nodes": ["0", "2"], "args": {"I": rng.choice(I_VALUES)}}]
    return {"kind": "circuit", "components": comps}


def circuit_ids(rec):
    return [c["id"] for c in rec["components"]]


def circuit_nodes(rec):
    out = []
    for c in rec["components"]:
        for n in c["nodes"]:
            if n not in out:
                out.append(n)
    return out


def network_ids(rec):
    return [b["el"]["name"] for b in rec["branches"]]


def network_nodes(rec):
    out = []
    for b in rec["branches"]:
        for n in (b["n1"], b["n2"]):
            if n not in out:
                out.append(n)
    return out


# --------------------------------------------------------------------------- descriptions (loader inputs)
def notation(rng, z, allow_deg=False, neg_p=0.15):
    """a complex number written in one of the documented notations"""
    import cmath
    import math
    r = rng.random()
    big = max(abs(z.real), abs(z.imag))
    if r < 0.4 or big > 1e150 or (0 < big < 1e-150) or z == 0:
        return {"real": z.real, "imag": z.imag}      # extreme magnitudes are written in Cartesian form only
    try:
        a, ph = abs(z), cmath.phase(z)
    except (OverflowError, ValueError):
        return {"real": z.real, "imag": z.imag}
    ph += rng.choice([0, 0, 2 * math.pi, -2 * math.pi, 4 * math.pi])
    if rng.random() < neg_p:
        a, ph = -a, ph + math.pi          # negative magnitude: the generic conversion must reject it; the network loader's
                                          # reading of it is not judged (ops_ld.m_complex), hence the lower rate there
    return {"abs": a, "phase": ph}


WIDE = [1e-15, 1e-13, 1e-12, 1e-9, 1e-6, 1e-3, 1e3, 1e6, 1e12]


def gen_net_description(rng, degenerate=False, wide=False):
    """list of dict entries over all twelve kinds of the network loader table; `wide`: complex values over thirty
    decades (pS admittances, TOhm impedances), not only around 1"""
    if wide:
        _cx = cx
        cx_ = lambda r: _cx(r) * r.choice(WIDE)
    else:
        cx_ = cx
    return _gen_net_description(rng, degenerate, cx_)


def _gen_net_description(rng, degenerate, cx):
    _notation = notation
    notation_ = lambda r, z: _notation(r, z, neg_p=0.04)
    kinds = ["resistor", "conductor", "impedance", "admittance", "linear_current_source", "current_source",
             "real_current_source", "linear_voltage_source", "voltage_source", "real_voltage_source",
             "short_circuit", "open_circuit"]
    labels = list(rng.choice(NODE_ALPHABETS[:4]))
    nodes = labels[:rng.randint(2, 4)]
    n = rng.randint(1, 6)
    names = element_names(rng, n)
    ents = []
    for i in range(n):
        k = rng.choice(kinds)
        a, b = (nodes[0], nodes[1]) if i == 0 else rng.sample(nodes, 2)
        e = {"type": k, "id": names[i], "N1": a, "N2": b}
        if k == "resistor":
            e["R"] = rng.choice(R_VALUES + [0, -5, 1e-12, 7, 2.0] + FINE_VALUES)
        elif k == "conductor":
            e["G"] = rng.choice([1 / rng.choice(R_VALUES), 0, -0.5, 3])
        elif k == "impedance":
            e["Z"] = notation_(rng, cx(rng) * 10)
        elif k == "admittance":
            e["Y"] = notation_(rng, cx(rng) * 0.1)
        elif k == "linear_current_source":
            e["I"] = notation_(rng, cx(rng)); e["Y"] = notation_(rng, cx(rng) * 0.1)
        elif k == "current_source":
            e["I"] = notation_(rng, cx(rng))
            if rng.random() < 0.3:
                e["Y"] = rng.choice([0, 0.5, 1e-3, 2])                  # optional raw admittance
        elif k == "real_current_source":
            e["I"] = rng.choice(I_VALUES + [0, -0.0]); e["Y"] = rng.choice([1 / rng.choice(R_VALUES), 0, 1])
        elif k == "linear_voltage_source":
            e["V"] = notation_(rng, cx(rng) * 5); e["Z"] = notation_(rng, cx(rng) * 10)
        elif k == "voltage_source":
            e["V"] = notation_(rng, cx(rng) * 5)
            if rng.random() < 0.3:
                e["Z"] = rng.choice([0, 10, 0.5, 1e3])                  # optional raw impedance
        elif k == "real_voltage_source":
            e["V"] = rng.choice(V_VALUES + [0, -1e-9] + FINE_VALUES); e["Z"] = rng.choice(R_VALUES + [0] + FINE_VALUES)
        keys = list(e.keys())
        rng.shuffle(keys)                       # key order of an entry is not significant
        ents.append({k2: e[k2] for k2 in keys})
    rec = {"kind": "value", "v": enc(ents)}
    if degenerate:
        d = rng.choice(["missing_key", "unknown_type", "bad_complex", "dup"])
        if d == "missing_key":
            ents[0].pop(rng.choice(["N1", "N2", "id", "type"]))
        elif d == "unknown_type":
            ents[0]["type"] = "memristor"
        elif d == "bad_complex":
            ents[0] = {"type": "impedance", "id": ents[0]["id"], "N1": nodes[0], "N2": nodes[1], "Z": {"re": 1, "im": 2}}
        elif len(ents) > 1:
            ents[1]["id"] = ents[0]["id"]
        rec = {"kind": "value", "v": enc(ents)}
    else:
        # YAML-anchor-like aliasing: two entries share one notation object
        cands = [(i, k2) for i, e in enumerate(ents) for k2, v in e.items() if isinstance(v, dict)]
        if len(cands) >= 2 and rng.random() < 0.3:
            (i, ki), (j, kj) = rng.sample(cands, 2)
            if ents[i]["type"] != ents[j]["type"] or True:
                ents[j][kj] = dict(ents[i][ki])
                rec = {"kind": "value", "v": enc(ents), "alias": [[[i, ki], [j, kj]]]}
    return rec


def gen_cir_entry(rng, name, nodes, kind=None):
    kinds = ["resistor", "conductance", "impedance", "admittance", "dc_voltage_source", "ac_voltage_source",
             "complex_voltage_source", "dc_current_source", "ac_current_source", "complex_current_source"]
    k = kind or rng.choice(kinds)
    a, b = rng.sample(nodes, 2)
    v = {}
    if k == "resistor":
        v = {"R": rng.choice(R_VALUES)}
    elif k == "conductance":
        v = {"G": 1 / rng.choice(R_VALUES)}
    elif k == "impedance":
        v = {"Z": cx(rng) * 10}
    elif k == "admittance":
        v = {"Y": cx(rng) * 0.1}
    elif k == "dc_voltage_source":
        v = {"V": rng.choice(V_VALUES)}
        if rng.random() < 0.5:
            v["R"] = rng.choice(R_VALUES)
    elif k == "ac_voltage_source":
        v = {"V": rng.choice(V_VALUES), "w": rng.choice(W_VALUES), "phi": rng.choice(PHI_VALUES)}
        if rng.random() < 0.5:
            v["R"] = rng.choice(R_VALUES)
    elif k == "complex_voltage_source":
        v = {"V": cx(rng) * 5}
        if rng.random() < 0.5:
            v["Z"] = cx(rng) * 10
    elif k == "dc_current_source":
        v = {"I": rng.choice(I_VALUES)}
        if rng.random() < 0.5:
            v["G"] = 1 / rng.choice(R_VALUES)
    elif k == "ac_current_source":
        v = {"I": rng.choice(I_VALUES), "w": rng.choice(W_VALUES), "phi": rng.choice(PHI_VALUES)}
        if rng.random() < 0.5:
            v["G"] = 1 / rng.choice(R_VALUES)
    elif k == "complex_current_source":
        v = {"I": cx(rng)}
        if rng.random() < 0.5:
            v["Y"] = cx(rng) * 0.1
    e = {"type": k, "id": name, "nodes": [a, b], "value": v}
    keys = list(e.keys())
    rng.shuffle(keys)
    return {k2: e[k2] for k2 in keys}


def gen_cir_description(rng, degenerate=False):
    labels = list(rng.choice(NODE_ALPHABETS[:4]))
    nodes = labels[:rng.randint(2, 4)]
    n = rng.randint(1, 5)
    names = element_names(rng, n)
    ents = [gen_cir_entry(rng, names[i], nodes) for i in range(n)]
    rec_alias = None
    if degenerate:
        d = rng.choice(["missing", "unknown", "odd_value", "dup"])
        if d == "missing":
            ents[0].pop(rng.choice(["id", "type", "value", "nodes"]))
        elif d == "unknown":
            ents[0]["type"] = "memristor"
        elif d == "odd_value":
            ents[0]["value"] = {"Q": 1}
        elif len(ents) > 1:
            ents[1]["id"] = ents[0]["id"]
    elif len(ents) >= 2 and rng.random() < 0.3:
        # two entries share one node list object (aliasing)
        rec_alias = [[[0, "nodes"], [1, "nodes"]]]
        ents[1]["nodes"] = list(ents[0]["nodes"])
    rec = {"kind": "value", "v": enc({"components": ents})}
    if rec_alias:
        rec["alias"] = [[["components"] + s, ["components"] + d] for s, d in rec_alias]
    return rec


STRINGS = ["a", "Ω", "μF", "x y", "", "null", "1", "ä→b", "real", "abs", "1e3", "on", "off", "yes", "no", "~", "0x10", "1_000",
           "3.0", "-.inf", ".nan", "2021-01-01", "true", "NULL", " lead", "trail ", "two\nlines", "#hash", "a: b", "'q'", "[1]", "{x}",
           "1+2j", "-", "?", "!!float 1", "\\"]
FLOATS = [0.5, -1.25, 1e-9, 3.141592653589793, 1e22, 0.1, -0.0, 1e-300, 1.7976931348623157e308, 5e-324, 0.30000000000000004,
          123456789.12345679, 1e16, 1.0, 100.0, 2.5e-5, -7.0e15, 0.1 + 0.7]
INTS = [0, 1, -7, 42, 10**6, 9007199254740993, -2**63, 2**64, 255]


def gen_document(rng, depth=0, python_form=True):
    """nested generic document: dicts and lists to depth 4, complex leaves anywhere, scalars in lists,
    empty containers, non-ASCII strings.  python_form: complex leaves are complex numbers; otherwise
    they are written in a notation."""
    def leaf():
        r = rng.random()
        if r < 0.3:
            z = cx(rng)
            if rng.random() < 0.25:
                z = complex(rng.choice(FLOATS), rng.choice(FLOATS))
            if python_form:
                return z
            n = notation(rng, z)
            if "abs" in n and n["abs"] < 0:
                n = {"real": z.real, "imag": z.imag}
            if "abs" in n and rng.random() < 0.3:
                import math
                n = {"abs": n["abs"], "phase_deg": n["phase"] * 180 / math.pi}
            return n
        if r < 0.5:
            return rng.choice(INTS)
        if r < 0.7:
            return rng.choice(FLOATS)
        if r < 0.8:
            return rng.choice(STRINGS)
        if r < 0.85:
            # dictionaries that LOOK like a complex notation but are not one (extra key, partial, both notations)
            return rng.choice([{"real": 1.5, "imag": -2.0, "unit": "V"}, {"abs": 2.0}, {"phase": 0.5}, {"real": 3.0},
                               {"real": 1.0, "imag": 2.0, "abs": 3.0, "phase": 0.1}, {"abs": 1.0, "phase": 0.2, "phase_deg": 11.0},
                               {"Real": 1.0, "Imag": 2.0}, {"abs": 2.0, "phase": 0.3, "note": "Ω"}])
        if r < 0.92:
            return rng.choice([True, False])
        return None

    def node(d):
        r = rng.random()
        if d >= 4 or r < 0.35:
            return leaf()
        if r < 0.7:
            n = rng.randint(0, 3)
            keys = rng.sample(["a", "b", "z", "Ω", "k1", "list", "v", "w"], n)
            return {k: node(d + 1) for k in keys}
        return [node(d + 1) for _ in range(rng.randint(0, 3))]
    n = rng.randint(1, 4)
    keys = rng.sample(["z", "cfg", "items", "name", "Ω", "deep", "n"], n)
    doc = {k: node(1) for k in keys}
    if rng.random() < 0.1:
        # ordinary members whose NAMES are notation words, next to other members
        doc[rng.choice(["real", "abs", "phase", "imag"])] = rng.choice([1.0, "x", [1, 2]])
    return doc


def gen_document_recipe(rng, python_form=True, alias_p=0.35):
    """a nested document recipe; with probability alias_p one container object (dict or list) is reachable
    from two places, as YAML anchors/merges or a Python description built around a shared sub-dictionary produce"""
    doc = gen_document(rng, python_form=python_form)
    if not python_form and rng.random() < 0.15:
        # a notation the library must reject (negative magnitude), nested: conversion fails part-way
        doc[rng.choice(["bad", "zz"])] = {"inner": [1, {"abs": -2.0, "phase": 0.5}]}
    if rng.random() < 0.12:
        # a large document (several buffer / chunk sizes long) dense in multi-byte characters
        n = rng.choice([150, 400, 1200, 2500])
        alphabet = ["Ω", "μ", "ä", "→", "R", "1", "€", "𝛀"]
        bulk = []
        for k in range(n):
            bulk.append("".join(rng.choice(alphabet) for _ in range(rng.randint(2, 9))))
            if k % 97 == 0:
                z = cx(rng)
                bulk.append(z if python_form else {"real": z.real, "imag": z.imag})
        doc[rng.choice(["bulk", "Ωbulk"])] = bulk
    rec = {"kind": "value", "v": enc(doc)}
    if rng.random() >= alias_p:
        return rec
    conts = []      # (path, object) of nested containers

    def walk(o, path):
        if isinstance(o, dict):
            if path:
                conts.append((path, o))
            for k, v in o.items():
                walk(v, path + [k])
        elif isinstance(o, list):
            if path:
                conts.append((path, o))
            for i, v in enumerate(o):
                walk(v, path + [i])
    walk(doc, [])
    if not conts:
        return rec
    src_path, src = rng.choice(conts)
    # destination: a new key in a dictionary that is neither the shared container nor inside it (no cycles)
    dicts = [([], doc)] + [(p, o) for p, o in conts if isinstance(o, dict)]
    dicts = [(p, o) for p, o in dicts if p[:len(src_path)] != src_path and not _is_notation(o)]
    if not dicts:
        return rec
    dpath, dobj = rng.choice(dicts)
    key = rng.choice(["shared", "again", "ref"])
    if key in dobj:
        return rec
    dobj[key] = None          # placeholder, replaced by the alias when the object is built
    rec = {"kind": "value", "v": enc(doc), "alias": [[src_path, dpath + [key]]]}
    return rec


def _is_notation(o):
    return isinstance(o, dict) and sorted(o.keys()) in (["imag", "real"], ["abs", "phase"], ["abs", "phase_deg"])
