"""Recipes -> objects.  A recipe is plain JSON data from which a description object can be
built any number of times; the pool of a run is built once and shared by all clients."""
import numpy as np

from .canon import dec


class BuildFailed(Exception):
    def __init__(self, cause):
        super().__init__(type(cause).__name__)
        self.cause = type(cause).__name__


def _np(v):
    if isinstance(v, bool):
        return v
    if isinstance(v, (int, float)):
        return np.float64(v)
    if isinstance(v, complex):
        return np.complex128(v)
    return v


def _element(el, as_numpy=False):
    from CircuitCalculator.Network import elements as elm
    k = el["k"]
    args = dec(el.get("args", {}))
    if as_numpy:
        # values taken from numpy arrays are numpy scalars: 1/np.float64(0) follows numpy's error state, not Python's
        args = {k2: _np(v) for k2, v in args.items()}
        if k == "voltage_source" and "Z" not in args:
            args["Z"] = np.float64(0)
        if k == "current_source" and "Y" not in args:
            args["Y"] = np.float64(0)
    return getattr(elm, k)(el["name"], **args)


def build_network(r):
    from CircuitCalculator.Network.network import Network, Branch
    branches = [Branch(b["n1"], b["n2"], _element(b["el"], r.get("np", False))) for b in r["branches"]]
    if "zero" in r:
        return Network(branches, r["zero"])
    return Network(branches)


def build_component(c):
    from CircuitCalculator.Circuit import components as ccp
    args = dec(c.get("args", {}))
    ctor = c["ctor"]
    if ctor == "ground":
        return ccp.ground(id=c["id"], nodes=tuple(c["nodes"]))
    if ctor == "raw":   # Component(...) built directly, for kinds without a constructor path
        return ccp.Component(type=c["type"], id=c["id"], nodes=tuple(c["nodes"]), value=args)
    return getattr(ccp, ctor)(id=c["id"], nodes=tuple(c["nodes"]), **args)


def build_circuit(r):
    from CircuitCalculator.Circuit.circuit import Circuit
    return Circuit([build_component(c) for c in r["components"]])


def _get_path(root, path):
    o = root
    for p in path:
        o = o[p]
    return o


def _set_path(root, path, v):
    o = _get_path(root, path[:-1])
    o[path[-1]] = v


def _odictify(v):
    """complex notations given as OrderedDict with the keys in the other order (a dict subclass is a dict)"""
    import collections
    if isinstance(v, dict):
        out = {k: _odictify(x) for k, x in v.items()}
        if sorted(out.keys()) in (["imag", "real"], ["abs", "phase"], ["abs", "phase_deg"]):
            return collections.OrderedDict(reversed(list(out.items())))
        return out
    if isinstance(v, list):
        return [_odictify(x) for x in v]
    return v


def _npnum(v):
    """numbers as a numerical programme has them: numpy scalars (np.int64 from arange, np.float32 where exact)"""
    if isinstance(v, dict):
        return {k: _npnum(x) for k, x in v.items()}
    if isinstance(v, list):
        return [_npnum(x) for x in v]
    if isinstance(v, bool) or v is None or isinstance(v, str):
        return v
    if isinstance(v, int):
        return np.int64(v) if abs(v) < 2 ** 62 else v
    if isinstance(v, float):
        with np.errstate(all="ignore"):
            f = np.float32(v)
        return f if (np.isfinite(v) and float(f) == v) else np.float64(v)
    if isinstance(v, complex):
        return np.complex128(v)
    return v


def build_value(r):
    v = dec(r["v"])
    if r.get("npnum"):
        v = _npnum(v)
    if r.get("odict"):
        v = _odictify(v)
    for src, dst in r.get("alias", []):
        _set_path(v, dst, _get_path(v, src))
    return v


def build_keep(r, pool):
    net = pool[r["net"]]
    out = []
    for i in r["ids"]:
        try:
            e = net[i].element
        except Exception:
            continue
        if not r.get("share", True):
            import copy
            e = copy.copy(e)
        out.append(e)
    return out


def build_pf(r):
    from CircuitCalculator.SignalProcessing.periodic_functions import periodic_function
    return periodic_function(r["wave"])(**dec(r["args"]))


def make_input_fn(spec):
    """harness-owned input signals u(t) for TransientSolution."""
    k = spec["fn"]
    if k == "const":
        c = spec["c"]
        return lambda t: c * np.ones(np.shape(t))
    if k == "step":
        t0, x1 = spec["t0"], spec["x1"]
        return lambda t: x1 * np.array(np.asarray(t) > t0, dtype=float)
    if k == "sin":
        a, w = spec["a"], spec["w"]
        return lambda t: a * np.sin(w * np.asarray(t))
    raise ValueError(k)


def build_inputs(r):
    return {k: make_input_fn(s) for k, s in sorted(r["map"].items())}


def build_one(name, r, pool):
    k = r["kind"]
    try:
        if k == "network":
            return build_network(r)
        if k == "circuit":
            return build_circuit(r)
        if k == "value":
            return build_value(r)
        if k == "ndarray":
            return np.array(dec(r["v"]), dtype=r.get("dtype", "float"))
        if k == "keep":
            return build_keep(r, pool)
        if k == "pf":
            return build_pf(r)
        if k == "inputs":
            return build_inputs(r)
        if k == "drawing":
            from . import ops_draw
            return ops_draw.build_drawing(r)
    except Exception as e:
        return BuildFailed(e)
    raise ValueError(f"unknown recipe kind {k}")


def build_pool(recipes):
    pool = {}
    for name in recipes:      # insertion order = dependency order (keep lists follow their network)
        pool[name] = build_one(name, recipes[name], pool)
    return pool
