"""Import the library from the configured source root (default /repo/src) and nothing else.

The pinned pytest command of this sandbox imports an *installed* CircuitCalculator wheel;
checks must look at the working tree, so the source root goes first on sys.path and the
import location is asserted.
"""
import os
import sys

SRC = os.path.realpath(os.environ.get("VERIF_REPO_SRC", "/repo/src"))
_booted = False


class HarnessError(Exception):
    pass


def boot():
    global _booted
    if _booted:
        return
    sys.dont_write_bytecode = True
    for k in ("OPENBLAS_NUM_THREADS", "OMP_NUM_THREADS", "MKL_NUM_THREADS"):
        os.environ.setdefault(k, "1")
    os.environ.setdefault("MPLBACKEND", "Agg")
    if SRC not in sys.path[:1]:
        sys.path.insert(0, SRC)
    from . import simfs
    simfs.install_dispatch()        # before the library is imported (it may bind open / os.stat at import time)
    for m in [m for m in sys.modules if m == "CircuitCalculator" or m.startswith("CircuitCalculator.")]:
        del sys.modules[m]
    import CircuitCalculator  # noqa
    f = os.path.realpath(CircuitCalculator.__file__)
    if not f.startswith(SRC + os.sep):
        raise HarnessError(f"CircuitCalculator imported from {f}, expected under {SRC}")
    import warnings
    warnings.filterwarnings("ignore")
    _booted = True


def boot_drawing():
    boot()
    import schemdraw
    schemdraw.use("svg")
    # display seam: a drawing that leaves its `with` block shows itself - in a terminal session by writing
    # /tmp/tmp*.svg and spawning a viewer process.  The simulated session is an inline (notebook) one, where showing
    # is the front end's business: nothing is written outside the simulated device and no process is spawned.
    import schemdraw.backends.svg as _svg
    _svg.inline = True
