"""Schematic operations (C15): drawing programs, save/load, declarative lists and their
programmatic twins, and the netlist-isomorphism oracle."""
from .engine import op
from . import canon as C
from .ops_ld import _Text, _viol


def _mods():
    import CircuitCalculator.SimpleCircuit.Elements as elm
    from CircuitCalculator.SimpleCircuit import dump_load as sdl
    from CircuitCalculator.SimpleCircuit.DiagramTranslator import circuit_translator
    from CircuitCalculator.SimpleSimulation import schematic as sch
    return elm, sdl, circuit_translator, sch


CLASSES = {
    "voltage_source": "VoltageSource", "current_source": "CurrentSource",
    "ac_voltage_source": "ACVoltageSource", "ac_current_source": "ACCurrentSource",
    "rect_voltage_source": "RectVoltageSource", "rect_current_source": "RectCurrentSource",
    "complex_voltage_source": "ComplexVoltageSource", "complex_current_source": "ComplexCurrentSource",
    "resistor": "Resistor", "conductance": "Conductance", "impedance": "Impedance", "admittance": "Admittance",
    "capacitor": "Capacitor", "inductance": "Inductance", "ground": "Ground", "line": "Line",
    "labeled_line": "LabeledLine", "node": "Node", "lamp": "Lamp",
}


# --------------------------------------------------------------------------- drawing programs
def _make(elmod, e):
    cls = getattr(elmod, CLASSES[e["cls"]])
    return cls(**C.dec(e.get("kw", {})))


def _direct(el, e, unit):
    d = e.get("dir")
    if d:
        ln = e.get("len")
        if e["cls"] == "ground" or ln is None:
            getattr(el, d)()
        else:
            getattr(el, d)(ln)
    return el


def build_drawing(r):
    """a seeded drawing program: explicit (.at(xy)) and cursor-style (.at(prev.end)) placement"""
    elm, sdl, circuit_translator, sch = _mods()
    d = elm.Schematic(unit=r.get("unit", 7))
    placed = []

    def go():
        for e in r["elems"]:
            el = _make(elm, e)
            at = e.get("at")
            if at is not None:
                if "xy" in at:
                    el.at(tuple(at["xy"]))
                else:
                    ref = placed[at["el"]]
                    el.at(getattr(ref, at.get("anchor", "end")))
            _direct(el, e, r.get("unit", 7))
            d.add(el)
            placed.append(el)
    if r.get("ctx", False):
        with d:
            go()
    else:
        go()
    return d


VALUE_PROPS = ("V", "I", "R", "G", "Z", "Y", "C", "L", "w", "phi", "deg", "sin")


def canon_schematic(d):
    """cheap public-state digest of a drawing (for O2): per element its simple-circuit type, name,
    reversal flag, absolute anchors and value properties"""
    out = []
    for e in d.elements:
        row = [type(e).__mro__[1].__name__ if type(e).__name__ == "decorated_element" else type(e).__name__,
               _g(e, "type"), _g(e, "name"), _g(e, "is_reverse")]
        aa = getattr(e, "absanchors", {}) or {}
        for k in ("start", "end", "center"):
            p = aa.get(k)
            row.append([k, None if p is None else [round(float(p[0]), 6), round(float(p[1]), 6)]])
        for k in VALUE_PROPS:
            if hasattr(type(e), k):
                row.append([k, C.canon(_g(e, k))])
        out.append(row)
    return ["sch", out]


def _g(e, k):
    try:
        v = getattr(e, k)
        return v if not callable(v) else None
    except Exception as ex:
        return ["exc", type(ex).__name__]


# --------------------------------------------------------------------------- isomorphism oracle
def _same_values(u, v):
    """== on value dictionaries, with nan equal to nan"""
    if u.keys() != v.keys():
        return False
    for k in u:
        x, y = u[k], v[k]
        if x == y:
            continue
        try:
            if x != x and y != y:
                continue
            # a phase that went through (phi + pi/2) - pi/2 differs in the last bit: not a different circuit
            if abs(complex(x) - complex(y)) <= 1e-12 * max(abs(complex(x)), abs(complex(y))):
                continue
        except Exception:
            pass
        return False
    return True


def iso(c1, c2):
    """None when the two circuits have the same component ids, kinds, value dictionaries and terminal
    order under ONE bijection of node labels that maps ground to ground; else a description."""
    ids1 = [c.id for c in c1.components]
    ids2 = [c.id for c in c2.components]
    if sorted(ids1) != sorted(ids2):
        return f"component ids differ: {sorted(ids1)} != {sorted(ids2)}"
    by2 = {c.id: c for c in c2.components}
    fwd, bwd = {}, {}

    def bind(a, b, where):
        if fwd.get(a, b) != b or bwd.get(b, a) != a:
            return f"node renaming is not a bijection at {where}: {a}->{b} conflicts with {a}->{fwd.get(a)} / {bwd.get(b)}->{b}"
        fwd[a] = b
        bwd[b] = a
        return None
    for a in c1.components:
        b = by2[a.id]
        if a.type != b.type:
            return f"{a.id}: kind {a.type} != {b.type}"
        if not _same_values(dict(a.value), dict(b.value)):
            return f"{a.id}: value {dict(a.value)} != {dict(b.value)}"
        if len(a.nodes) != len(b.nodes):
            return f"{a.id}: terminal count {len(a.nodes)} != {len(b.nodes)}"
        for x, y in zip(a.nodes, b.nodes):
            d = bind(x, y, a.id)
            if d:
                return d
    if c1.components or c2.components:
        d = bind(c1.ground_node, c2.ground_node, "reference node")
        if d:
            return "reference node differs: " + d
    return None


def _origin_circuit(ctx, name):
    """translation of a *fresh* build of a pool drawing (cached); ('exc', type) when outside the domain"""
    cache = ctx.model_state.setdefault("origin_circuit", {})
    if name not in cache:
        elm, sdl, circuit_translator, sch = _mods()
        try:
            from . import world
            d = world.build_one(name, ctx.plan["recipes"][name], {})
            if isinstance(d, world.BuildFailed):
                raise d
            cache[name] = circuit_translator(d)
        except Exception as e:
            cache[name] = ("exc", type(e).__name__)
    return cache[name]


def _origin_of(ctx, ref):
    if isinstance(ref, dict) and "p" in ref:
        return ref["p"]
    if isinstance(ref, dict) and "h" in ref:
        return ctx.model_state.get("origin", {}).get(ref["h"])
    return None


def _set_origin(ctx, rec, origin):
    ctx.model_state.setdefault("origin", {})[rec["id"]] = origin


def _judge(ctx, res, origin, rec, what):
    """a drawing obtained from `origin` by >= 1 acknowledged save/load cycles must translate to an
    isomorphic circuit"""
    elm, sdl, circuit_translator, sch = _mods()
    if origin is None:
        return None
    exp = _origin_circuit(ctx, origin)
    if isinstance(exp, tuple):
        rec["discarded"] = "original-does-not-translate:" + exp[1]
        return None
    if isinstance(res, BaseException):
        return _viol(what + "-failed", f"{what} of a translatable drawing raised {type(res).__name__}")
    try:
        got = circuit_translator(res)
    except Exception as e:
        return _viol("reloaded-does-not-translate", f"{type(e).__name__}")
    d = iso(exp, got)
    return _viol("not-isomorphic", d) if d else None


# --------------------------------------------------------------------------- ops
@op("sc.translate")
def sc_translate(ctx, a, seam):
    elm, sdl, circuit_translator, sch = _mods()
    return circuit_translator(ctx.arg(a["d"]))


@op("sc.solve")
def sc_solve(ctx, a, seam):
    elm, sdl, circuit_translator, sch = _mods()
    from CircuitCalculator.Circuit.solution import DCSolution, ComplexSolution
    cir = circuit_translator(ctx.arg(a["d"]))
    sol = DCSolution(cir) if a.get("kind", "dc") == "dc" else ComplexSolution(cir, w=a.get("w", 0))
    out = []
    for c in cir.components:
        if c.type == "ground":
            continue
        for q in ("voltage", "current"):
            try:
                out.append([c.id, q, getattr(sol, "get_" + q)(c.id)])
            except Exception as e:
                out.append([c.id, q, e.with_traceback(None)])
    return out


def model_serialize(ctx, a, res, rec):
    origin = _origin_of(ctx, a["d"])
    _set_origin(ctx, rec, origin)
    if origin is None:
        return None
    exp = _origin_circuit(ctx, origin)
    if isinstance(exp, tuple):
        rec["discarded"] = "original-does-not-translate:" + exp[1]
        return None
    if a["fmt"] != "json":
        return None                        # only JSON is asserted (the property names JSON)
    if isinstance(res, BaseException):
        return _viol("serialize-failed", f"serialize of a translatable drawing raised {type(res).__name__}")
    return None


@op("sc.serialize", handle=True, model=model_serialize)
def sc_serialize(ctx, a, seam):
    elm, sdl, circuit_translator, sch = _mods()
    return _Text(sdl.serialize(ctx.arg(a["d"]), a["fmt"]))


def model_deserialize(ctx, a, res, rec):
    origin = _origin_of(ctx, a["text"])
    _set_origin(ctx, rec, origin)
    if a["fmt"] != "json":
        return None
    return _judge(ctx, res, origin, rec, "deserialize")


@op("sc.deserialize", handle=True, snap=True, model=model_deserialize)
def sc_deserialize(ctx, a, seam):
    elm, sdl, circuit_translator, sch = _mods()
    return sdl.deserialize(ctx.arg(a["text"]).s, a["fmt"])


def model_dump(ctx, a, res, rec):
    ctx.model_state.setdefault("sc_dumps", {})[rec["id"]] = _origin_of(ctx, a["d"])
    return None


@op("sc.dump", writes="path", model=model_dump)
def sc_dump(ctx, a, seam):
    # always the schematic module's own dump/load pair (they may add an envelope, a checksum ... of their own)
    elm, sdl, circuit_translator, sch = _mods()
    return sdl.dump(a["path"], ctx.arg(a["d"]))


def _judge_unacknowledged(ctx, res, rec):
    """a path whose last save failed or was interrupted: the load may raise (nothing is promised about THAT), but a
    drawing it does return was saved there - the last acknowledged one or one a writer since then tried to save;
    a mixture of two saves is a circuit nobody serialised.  No verdict when the writers overlapped, the file was
    removed or damaged by a foreign writer, or any candidate is outside the domain."""
    from . import engine
    elm, sdl, circuit_translator, sch = _mods()
    cands = rec.get("saw_cands")
    if not cands or isinstance(res, BaseException):
        return None
    idx = ctx.model_state.get("step_index")
    if idx is None:
        idx = ctx.model_state["step_index"] = engine.index_steps(ctx.plan)
    exps = []
    for c in cands:
        s = idx.get(c)
        if s is None or s["op"] != "sc.dump":
            return None
        o = _origin_of(ctx, s["a"]["d"])
        if o is None:
            return None
        e = _origin_circuit(ctx, o)
        if isinstance(e, tuple):
            return None
        exps.append((o, e))
    try:
        got = circuit_translator(res)
    except Exception:
        return None
    ctx.probe("load_after_failed_save_returned_a_drawing")
    diffs = []
    for o, e in exps:
        d = iso(e, got)
        if d is None:
            _set_origin(ctx, rec, o)
            return None
        diffs.append(d)
    return _viol("load-after-failed-save-neither-old-nor-new", " | ".join(diffs)[:400])


def model_load(ctx, a, res, rec):
    saw = rec.get("saw")
    origin = None
    if saw and saw[0] == "ack":
        origin = ctx.model_state.get("sc_dumps", {}).get(saw[1])
    _set_origin(ctx, rec, origin)
    if origin is None:
        return _judge_unacknowledged(ctx, res, rec)
    faulted = rec.get("io_fault", {}).get("fired") and rec["io_fault"]["kind"] in ("read-eio", "open-fail")
    if faulted and isinstance(res, BaseException):
        return None
    return _judge(ctx, res, origin, rec, "load")


@op("sc.load", reads="path", handle=True, snap=True, model=model_load)
def sc_load(ctx, a, seam):
    elm, sdl, circuit_translator, sch = _mods()
    return sdl.load(a["path"])


@op("sc.mangle")
def sc_mangle(ctx, a, seam):
    """a foreign writer stores a DAMAGED schematic file (one element in the middle lost a key, got an unknown type
    or a broken value): loading it fails part-way or yields an unspecified drawing - nothing is promised about
    that load, everything is promised about the loads after it"""
    import json as _json
    doc = _json.loads(ctx.arg(a["text"]).s)
    els = doc.get("simple_circuit", [])
    if els:
        i = min(len(els) - 1, max(0, int(a.get("pos", 0.5) * len(els))))
        how = a.get("how", "drop_values")
        if how == "drop_values":
            els[i].pop("values", None)
        elif how == "bad_segments":
            els[i].setdefault("values", {})["segments"] = [{"type": "Segment", "values": {"nope": 1}}]
        elif how == "drop_name":
            els[i].pop("name", None)
        elif how == "bad_circuit":
            doc["circuit"] = {"components": [{"id": els[i].get("name", "x")}]}
        else:
            els[i]["values"]["_userparams"] = 7
    data = _json.dumps(doc).encode("utf-8")
    ctx.disk.files[a["path"]] = bytearray(data)
    ctx.disk.touch(a["path"])
    ctx.disk.state[a["path"]] = ("bot", "foreign-damaged", ctx.disk.step)
    return len(els)


# --------------------------------------------------------------------------- declarative lists
def build_twin(data):
    """the programmatic construction equivalent to a declarative element list:
    type -> class, direction -> .right/.left/.up/.down(length*unit), place_after -> .at(origin.end)"""
    elm, sdl, circuit_translator, sch = _mods()
    unit = data.get("unit", 7)
    with elm.Schematic(unit=unit) as d:
        for e in data.get("elements", []):
            kw = {k: v for k, v in e.items() if k not in ("type", "direction", "length", "place_after")}
            t = e["type"]
            if t == "line" and "name" in kw:
                cls = elm.LabeledLine
            else:
                cls = getattr(elm, CLASSES[t])
            el = cls(**kw)        # exactly what a programme would write: no defaults borrowed from the front end
            direction = e.get("direction", "")
            if direction in ("right", "left", "up", "down"):
                getattr(el, direction)(e.get("length", 1) * unit)
            if e.get("place_after") is not None:
                names = [x.name for x in d.elements]
                el.at(d.elements[names.index(e["place_after"])].end)
            d += el
    return d


def model_create(ctx, a, res, rec):
    """create_schematic(list) produces the same circuit as the programmatic twin"""
    elm, sdl, circuit_translator, sch = _mods()
    data = C.dec(ctx.plan["recipes"][a["data"]["p"]]["v"])
    for e in data.get("elements", []) if isinstance(data, dict) else []:
        if isinstance(e, dict) and e.get("type") != "line" and "name" not in e:
            # a symbol without a name: which name the front end gives it ('' today) and which one the class gives
            # itself (Ground: '0') is not what "the equivalent programmatic construction" pins down - no verdict
            rec["discarded"] = "anonymous-symbol"
            return None
    try:
        twin = build_twin(data)
        exp = circuit_translator(twin)
    except Exception as e:
        if isinstance(res, BaseException):
            return None
        rec["discarded"] = "twin-does-not-build:" + type(e).__name__
        return None
    if isinstance(res, BaseException):
        if "solution" in data:
            # create_schematic also evaluates the requested solution; a circuit that cannot be solved (e.g. no
            # usable reference node) makes it raise, which says nothing about the element list (C15's subject)
            rec["discarded"] = "solution-requested-and-create-raised:" + type(res).__name__
            return None
        return _viol("create-failed", f"create_schematic raised {type(res).__name__} although the programmatic twin builds and translates")
    try:
        got = circuit_translator(res)
    except Exception as e:
        return _viol("created-does-not-translate", type(e).__name__)
    d = iso(exp, got)
    return _viol("declarative-differs-from-programmatic", d) if d else None


@op("sc.create", handle=True, snap=True, model=model_create)
def sc_create(ctx, a, seam):
    elm, sdl, circuit_translator, sch = _mods()
    return sch.create_schematic(ctx.arg(a["data"]))


def model_foreign_ctx(ctx, a, res, rec):
    if isinstance(res, BaseException):
        return _viol("foreign-context-failed", f"{type(res).__name__}")
    if res != a["names"]:
        return _viol("foreign-context-polluted", f"outer drawing holds {res}, its owner added {a['names']}")
    return None


@op("sc.foreign_ctx", seam="inside", model=model_foreign_ctx)
def sc_foreign_ctx(ctx, a, seam):
    """another client's `with Schematic()` block is open while nested steps (create_schematic) run"""
    elm, sdl, circuit_translator, sch = _mods()
    inside = seam.wrap(lambda: None)
    with elm.Schematic(unit=a.get("unit", 7)) as outer:
        outer += elm.Resistor(R=1, name=a["names"][0]).right()
        inside()
        outer += elm.Resistor(R=2, name=a["names"][1]).down()
    return [e.name for e in outer.elements]


def finding_matches(ic, step, plan):
    """input class of a known finding: the drawing a step works on contains an element of one of the
    given kinds whose keyword arguments satisfy the given flags"""
    names = [n for n, r in plan["recipes"].items() if r.get("kind") == "drawing"]
    for n in names:
        for e in plan["recipes"][n]["elems"]:
            if e["cls"] in ic["cls"]:
                kw = C.dec(e.get("kw", {}))
                if any(kw.get(f) for f in ic.get("any_flag", [])):
                    return True
    return False
