"""Network-level operations (public operations behind C01, C06, C10, C16)."""
from .engine import op


def _mods():
    from CircuitCalculator.Network.NodalAnalysis import bias_point_analysis as bpa
    from CircuitCalculator.Network.NodalAnalysis import node_analysis as na
    from CircuitCalculator.Network.NodalAnalysis import label_mapping as lm
    from CircuitCalculator.Network.NodalAnalysis import state_space_model as ssm
    from CircuitCalculator.Network import transformers as trf
    return bpa, na, lm, ssm, trf


@op("net.solve", handle=True, seam="node_mapper")
def net_solve(ctx, a, seam):
    bpa, na, lm, ssm, trf = _mods()
    net = ctx.arg(a["net"])
    if seam.used:
        return bpa.NodalAnalysisBiasPointSolution(net, node_mapper=seam.wrap(lm.default_node_mapper))
    return bpa.nodal_analysis_bias_point_solver(net)


@op("nsol.query")
def nsol_query(ctx, a, seam):
    sol = ctx.arg(a["sol"])
    return getattr(sol, "get_" + a["q"])(a["id"])


@op("nsol.all")
def nsol_all(ctx, a, seam):
    """query everything a solution offers (all node ids, all branch ids, four quantities)"""
    sol = ctx.arg(a["sol"])
    net = sol.network
    out = []
    for n in list(net.node_labels) + ["__unknown__"]:
        out.append(["potential", n, _try(lambda: sol.get_potential(n))])
    for b in list(net.branch_ids) + ["__unknown__"]:
        for q in ("voltage", "current", "power"):
            out.append([q, b, _try(lambda: getattr(sol, "get_" + q)(b))])
    return out


def _try(f):
    try:
        return f()
    except Exception as e:
        # keep the exception as a value, but not its traceback: the frames would keep the solution, its network
        # and everything else alive, and dropped objects could never die
        return e.with_traceback(None)


@op("net.port", seam="node_index_mapper")
def net_port(ctx, a, seam):
    bpa, na, lm, ssm, trf = _mods()
    net = ctx.arg(a["net"])
    f = a["f"]
    if f == "ocv":
        return bpa.open_circuit_voltage(net, a["n1"], a["n2"])
    if f == "scc":
        return bpa.short_circuit_current(net, a["n1"], a["n2"])
    if f == "oci":
        if seam.used:
            return na.open_circuit_impedance(net, a["n1"], a["n2"], node_index_mapper=seam.wrap(lm.default_node_mapper))
        return na.open_circuit_impedance(net, a["n1"], a["n2"])
    if f == "eli":
        if seam.used:
            return na.element_impedance(net, a["id"], node_index_mapper=seam.wrap(lm.default_node_mapper))
        return na.element_impedance(net, a["id"])
    raise ValueError(f)


@op("net.matrix", seam="node_mapper")
def net_matrix(ctx, a, seam):
    bpa, na, lm, ssm, trf = _mods()
    net = ctx.arg(a["net"])
    f = a["f"]
    kw = {}
    if seam.used:
        kw = {"node_index_mapper" if f == "node_admittance_matrix" else "node_mapper": seam.wrap(lm.default_node_mapper)}
        if f == "current_source_vector":
            kw = {"source_mapper": seam.wrap(lm.alphabetic_current_source_mapper)}
    return getattr(na, f)(net, **kw)


@op("net.props")
def net_props(ctx, a, seam):
    """read-only accessors of Network"""
    net = ctx.arg(a["net"])
    n = a.get("node", "0")
    return [list(net.branch_ids), list(net.node_labels), net.number_of_nodes, net.is_zero_node(n),
            [b.id for b in net.branches_connected_to(n)], sorted(net.nodes_connected_to(n)),
            [b.id for b in net.branches_between(n, a.get("node2", "0"))]]


@op("net.xform", handle=True, snap=True)
def net_xform(ctx, a, seam):
    bpa, na, lm, ssm, trf = _mods()
    net = ctx.arg(a["net"])
    f = a["f"]
    if f == "switch_ground_node":
        return trf.switch_ground_node(net, a["node"])
    if f == "remove_element":
        return trf.remove_element(net, a["id"])
    if f == "remove_open_circuit_elements":
        return trf.remove_open_circuit_elements(net)
    fn = getattr(trf, f)
    if "keep" in a:
        return fn(net, keep=ctx.arg(a["keep"]))
    ctx.probe("default_arg_path:" + f)
    return fn(net)


@op("net.ssm", handle=True, seam="node_index_mapper")
def net_ssm(ctx, a, seam):
    bpa, na, lm, ssm, trf = _mods()
    net = ctx.arg(a["net"])
    kw = {}
    if "cv" in a:
        kw["c_values"] = ctx.arg(a["cv"])
    else:
        ctx.probe("default_arg_path:c_values")
    if "lv" in a:
        kw["l_values"] = ctx.arg(a["lv"])
    else:
        ctx.probe("default_arg_path:l_values")
    if seam.used:
        kw["node_index_mapper"] = seam.wrap(lm.default_node_mapper)
    return ssm.nodal_state_space_model(net, **kw)


@op("ssm.query")
def ssm_query(ctx, a, seam):
    m = ctx.arg(a["ssm"])
    q = a["q"]
    if q in ("A", "B", "C", "D", "sources", "n_states", "n_inputs", "n_outputs"):
        return getattr(m, q)
    return getattr(m, q)(a["id"])


@op("ssm.all")
def ssm_all(ctx, a, seam):
    m = ctx.arg(a["ssm"])
    out = [m.A, m.B, m.C, m.D, _try(lambda: m.sources)]
    net = m.network
    for n in list(net.node_labels):
        out.append(_try(lambda: m.c_row_for_potential(n)))
        out.append(_try(lambda: m.d_row_for_potential(n)))
    for b in list(net.branch_ids):
        for q in ("c_row_voltage", "c_row_current", "d_row_voltage", "d_row_current"):
            out.append(_try(lambda: getattr(m, q)(b)))
    return out


def _has_callable(v, depth=0):
    if callable(v):
        return True
    if depth < 4 and isinstance(v, (list, tuple)):
        return any(_has_callable(x, depth + 1) for x in v)
    if depth < 4 and isinstance(v, dict):
        return any(_has_callable(x, depth + 1) for x in v.values())
    return False


@op("h.drop")
def h_drop(ctx, a, seam):
    """the client lets go of a result (a network it loaded, a solution it queried): the simulator forgets every
    reference it holds, so that the object can die and its memory - and its id() - be reused"""
    import gc
    from .engine import Skip
    hid = a["x"]["h"]
    if hid not in ctx.handles:
        raise Skip(hid)
    ctx.handles.pop(hid, None)
    ctx.snap_objs.pop("h:" + hid, None)
    ctx.snap_base.pop("h:" + hid, None)
    # ... including what it got out of it (answers of a solution may be closures over the solution)
    from . import engine
    idx = ctx.__dict__.setdefault("_step_index", None) or engine.index_steps(ctx.plan)
    ctx._step_index = idx
    gone = {hid} | {sid for sid, s in idx.items() if hid in engine.consumed_handles(s) and not engine.OPS[s["op"]].handle}
    ctx.kept = [k for k in ctx.kept if k[0]["id"] == hid or not (k[0]["id"] in gone and _has_callable(k[1]))]
    ctx.kept = [k for k in ctx.kept if k[0]["id"] != hid]
    gc.collect(0)          # young generation only (a full collection of this large process costs tens of ms)
    ctx.probe("handles_dropped")
    return None
