"""Known findings: a listed finding is matched by its signature AND its specific input class,
so that a different violation of the same property is still reported."""
from . import engine


def input_class_matches(ic, v, plan):
    if not ic:
        return True
    if plan is None:
        return False
    idx = engine.index_steps(plan)
    step = idx.get(v.get("step"))
    kind = ic.get("kind")
    if kind == "step_arg_equals":
        # {"kind": "step_arg_equals", "arg": "degree", "value": true}
        return step is not None and step.get("a", {}).get(ic["arg"]) == ic["value"]
    if kind == "drawing_has_element":
        from . import ops_draw
        return ops_draw.finding_matches(ic, step, plan)
    return False
