"""One integer decides everything.

Every choice of a run is drawn from a named sub-stream derived from the run seed, so
removing a step during minimisation does not shift unrelated draws.  Nothing here reads a
clock, the environment or the interpreter's hash seed.
"""
import hashlib
import random


def h64(*parts) -> int:
    m = hashlib.blake2b(digest_size=8)
    for p in parts:
        m.update(repr(p).encode())
        m.update(b"\x00")
    return int.from_bytes(m.digest(), "big")


def run_seed(verif_seed: int, tier: str, prop: str, i: int) -> int:
    # tier is deliberately NOT part of the derivation of the i-th run: thorough explores a
    # superset of quick's runs (same prefix), which makes results comparable across tiers.
    return h64("run", int(verif_seed), prop, int(i)) >> 1


class Streams:
    """Named PRNG sub-streams of one run seed."""

    def __init__(self, seed: int):
        self.seed = int(seed)
        self._cache = {}

    def __call__(self, *label) -> random.Random:
        r = self._cache.get(label)
        if r is None:
            r = random.Random(h64("stream", self.seed, *label))
            self._cache[label] = r
        return r


def digest(obj) -> str:
    return hashlib.blake2b(repr(obj).encode(), digest_size=12).hexdigest()
