"""Simulated raw file device under CPython's real TextIOWrapper / Buffered* layers.

Short reads and short writes are injected where they are legal (the raw layer), and the
buffering code that must absorb them is the real one.  Every raw call is an event.
"""
import errno
import io
import os


class _StateLog(dict):
    """path -> state; every assignment is remembered, so that the possible contents of a path after a failed write
    (old, or what a writer since then wrote) can be enumerated"""

    def __init__(self):
        super().__init__()
        self.hist = []

    def __setitem__(self, k, v):
        self.hist.append((k, tuple(v)))
        super().__setitem__(k, v)


class SimDisk:
    def __init__(self, buffer_size=8192, log=None):
        self.files = {}          # path -> bytearray
        self.state = _StateLog() # path -> ('ack', step_id) | ('bot', why)   ; absent = never written
        self.buffer_size = buffer_size
        self.log = log if log is not None else []
        self.fault_stack = [None]   # current step's armed I/O fault (top of stack)
        self.step_stack = [None]    # current step id
        self.open_handles = 0
        self.probes = {}
        self.wopened = set()     # (step id, path) pairs that truncated the path
        self.mtime = {}          # path -> simulated st_mtime_ns
        self.clock_ns = 1_700_000_000 * 10 ** 9
        self.mtime_mode = "fine"  # 'fine': every modification advances the clock; 'coarse': only every 3rd; 'frozen': never
        self.nmod = 0
        self.ino = {}
        self.fds = {}            # fake descriptor -> path
        self.raw_by_fd = {}      # fake descriptor -> SimRaw (every handle, however it was opened)
        self.raws = {}           # fake descriptor -> SimRaw opened through os.open
        cwd = os.getcwd()
        self.cwds = sorted({cwd, os.path.normpath(cwd)} | ({os.path.realpath(cwd)} if not hasattr(os.stat, "__wrapped_sim__") else set()))

    # -- fault plumbing
    def arm(self, step_id, fault):
        self.step_stack.append(step_id)
        self.fault_stack.append(dict(fault) if fault else None)

    def disarm(self):
        self.step_stack.pop()
        return self.fault_stack.pop()

    @property
    def fault(self):
        return self.fault_stack[-1]

    @property
    def step(self):
        return self.step_stack[-1]

    def key(self, path):
        """one name per simulated file however the library spells it: './a.json', Path('a.json').resolve(),
        os.path.abspath('a.json') (inside the scratch cwd) all denote 'a.json'.  Purely lexical: it must not
        touch the (patched) file system itself."""
        p = os.path.normpath(os.fspath(path))
        if os.path.isabs(p):
            for cwd in self.cwds:
                if p.startswith(cwd + os.sep) and os.sep not in p[len(cwd) + 1:]:
                    return p[len(cwd) + 1:]
        return p

    def ev(self, *a):
        self.log.append(("io",) + a)

    def probe(self, name):
        self.probes[name] = self.probes.get(name, 0) + 1

    # -- the seam: assigned to <module>.open
    def open(self, file, mode="r", buffering=-1, encoding=None, errors=None, newline=None, *args, **kwargs):
        """text and binary modes r / w / a / x with optional '+', like the builtin (the library itself uses
        'r' and 'w'; the other modes exist so that a changed library meets a faithful device, not a harness error)"""
        path = self.key(file)
        m = mode.replace("t", "")
        binary = "b" in m
        m = m.replace("b", "")
        plus = "+" in m
        base = m.replace("+", "")
        if base not in ("r", "w", "a", "x") or len(base) != 1:
            raise ValueError(f"invalid mode: {mode!r}")
        writing = base in ("w", "a", "x") or plus
        reading = base == "r" or plus
        f = self.fault
        if f and f.get("kind") == "open-fail" and not f.get("fired") and f.get("on", "any") in ("any", "w" if base != "r" else "r"):
            f["fired"] = True
            self.ev(path, "open-fail", f["errno"])
            raise OSError(getattr(errno, f["errno"]), os.strerror(getattr(errno, f["errno"])), path)
        if base == "r" and path not in self.files:
            self.ev(path, "open-r-enoent")
            raise FileNotFoundError(errno.ENOENT, os.strerror(errno.ENOENT), path)
        if base == "x" and path in self.files:
            raise FileExistsError(errno.EEXIST, os.strerror(errno.EEXIST), path)
        if writing:
            prev = self.state.get(path)
            if prev and prev[0] == "ack":
                self.probe("overwrite_of_acknowledged_file")
            if prev and prev[0] == "bot" and prev[1] == "inflight":
                self.probe("write_open_while_dump_in_flight")
            if base in ("w", "x") or path not in self.files:
                self.files[path] = bytearray()        # 'w' truncates at open, like the real call
                self.touch(path)
            self.wopened.add((self.step, path))
            self.state[path] = ("bot", "inflight", self.step)
            self.ev(path, "open-" + mode)
        else:
            st = self.state.get(path)
            if st and st[0] == "bot" and st[1] == "inflight":
                self.probe("load_while_dump_in_flight")
            self.ev(path, "open-r")
        raw = SimRaw(self, path, reading, writing, append=(base == "a"))
        bs = self.buffer_size if buffering in (-1, None) or buffering < 1 else buffering
        if plus:
            buf = io.BufferedRandom(raw, buffer_size=bs)
        elif writing:
            buf = io.BufferedWriter(raw, buffer_size=bs)
        else:
            buf = io.BufferedReader(raw, buffer_size=bs)
        if binary:
            return buf
        text = io.TextIOWrapper(buf, encoding=encoding or "utf-8", errors=errors, newline=newline)
        text.mode = mode        # the builtin open() sets this attribute on the text layer as well
        return text

    # -- descriptor level API (os.open / os.fdopen / os.write / os.read / os.close), reached through GlobalFS
    def os_open(self, path, flags):
        path = self.key(path)
        acc = flags & (os.O_WRONLY | os.O_RDWR)
        writing = acc in (os.O_WRONLY, os.O_RDWR)
        reading = acc in (0, os.O_RDWR)
        exists = path in self.files
        if flags & os.O_CREAT and flags & os.O_EXCL and exists:
            raise FileExistsError(errno.EEXIST, os.strerror(errno.EEXIST), path)
        if not exists and not flags & os.O_CREAT:
            raise FileNotFoundError(errno.ENOENT, os.strerror(errno.ENOENT), path)
        f = self.fault
        if f and f.get("kind") == "open-fail" and not f.get("fired") and f.get("on", "any") in ("any", "w" if writing else "r"):
            f["fired"] = True
            self.ev(path, "open-fail", f["errno"])
            raise OSError(getattr(errno, f["errno"]), os.strerror(getattr(errno, f["errno"])), path)
        if writing:
            if not exists or flags & os.O_TRUNC:
                self.files[path] = bytearray()
                self.touch(path)
            self.wopened.add((self.step, path))
            self.state[path] = ("bot", "inflight", self.step)
            self.ev(path, "os.open-w")
        else:
            self.ev(path, "os.open-r")
        raw = SimRaw(self, path, reading, writing, append=bool(flags & os.O_APPEND))
        self.raws[raw.fd] = raw
        return raw.fd

    def wrap_fd(self, fd, mode="r", buffering=-1, encoding=None, errors=None, newline=None):
        raw = self.raws[fd]
        m = mode.replace("t", "")
        binary = "b" in m
        bs = self.buffer_size if buffering in (-1, None) or buffering < 1 else buffering
        if raw.reading and raw.writing:
            buf = io.BufferedRandom(raw, buffer_size=bs)
        elif raw.writing:
            buf = io.BufferedWriter(raw, buffer_size=bs)
        else:
            buf = io.BufferedReader(raw, buffer_size=bs)
        if binary:
            return buf
        text = io.TextIOWrapper(buf, encoding=encoding or "utf-8", errors=errors, newline=newline)
        text.mode = mode
        return text

    # -- metadata and namespace operations (reached through GlobalFS)
    def touch(self, path):
        """a modification of `path` happened; the simulated clock is a seam: file systems and kernels with coarse
        time stamps give two successive writes the same mtime, which is legal"""
        path = self.key(path)
        self.nmod += 1
        if self.mtime_mode == "fine" or (self.mtime_mode == "coarse" and self.nmod % 3 == 0):
            self.clock_ns += 1_000_000
        self.mtime[path] = self.clock_ns

    def stat(self, path):
        path = self.key(path)
        if path not in self.files:
            self.ev(path, "stat-enoent")
            raise FileNotFoundError(errno.ENOENT, os.strerror(errno.ENOENT), path)
        self.probe("stat_calls")
        m = self.mtime.get(path, self.clock_ns)
        ino = self.ino.setdefault(path, 1000 + len(self.ino))
        size = len(self.files[path])
        return os.stat_result((0o100644, ino, 99, 1, 0, 0, size, m // 10 ** 9, m // 10 ** 9, m // 10 ** 9,
                               m / 1e9, m / 1e9, m / 1e9, m, m, m))

    def rename(self, src, dst):
        src, dst = self.key(src), self.key(dst)
        if src not in self.files:
            raise FileNotFoundError(errno.ENOENT, os.strerror(errno.ENOENT), src)
        self.files[dst] = self.files.pop(src)
        self.mtime[dst] = self.mtime.pop(src, self.clock_ns)
        st = self.state.pop(src, None)
        if st is not None:
            self.state[dst] = st
            # the source path WAS written; its content has been moved away, not un-written
            self.state[src] = ("bot", "moved", self.step)
        for (step, p) in list(self.wopened):
            if p == src:
                self.wopened.add((step, dst))
        self.ev(src, "rename", dst)
        self.probe("rename_calls")

    def remove(self, path):
        path = self.key(path)
        if path not in self.files:
            raise FileNotFoundError(errno.ENOENT, os.strerror(errno.ENOENT), path)
        del self.files[path]
        self.mtime.pop(path, None)
        self.state[path] = ("bot", "removed", self.step)
        self.ev(path, "remove")

    def put_raw(self, path, data):
        path = self.key(path)
        self.files[path] = bytearray(data)
        self.touch(path)
        self.wopened.add((self.step, path))
        self.state[path] = ("bot", "inflight", self.step)
        self.ev(path, "put-raw", len(data))

    # -- model bookkeeping, called by the engine
    def seen_state(self, path):
        path = self.key(path)
        st = self.state.get(path)
        if st is None:
            return ["absent"]
        return list(st)

    def candidates(self, path):
        """the writers whose content the path may hold (the last acknowledged one first, then every writer that
        opened it since); None when that cannot be said (overlapping writers, removal, a foreign damaged file)"""
        path = self.key(path)
        cands, inflight, unknown = [], set(), False
        for k, v in self.state.hist:
            if k != path:
                continue
            if v[0] == "ack":
                cands, unknown = [v[1]], False
                inflight.discard(v[1])
            elif v[1] == "inflight":
                if inflight - {v[2]}:
                    unknown = True
                inflight.add(v[2])
                if v[2] not in cands:
                    cands.append(v[2])
            elif v[1] in ("overlapped", "removed", "foreign-damaged"):
                unknown = True
            elif v[1] == "moved":      # renamed away (a backup rotation): no new candidate
                pass
            else:                      # a writer ended without acknowledgement (it may never have opened the path itself)
                inflight.discard(v[2])
                if v[2] not in cands:
                    cands.append(v[2])
        return None if unknown or not cands else list(cands)

    def ack(self, path, step_id):
        path = self.key(path)
        st = self.state.get(path)
        if st and st[0] == "bot" and st[1] == "inflight" and st[2] == step_id:
            self.state[path] = ("ack", step_id)
            return True
        # somebody else wrote in between: both writers leave the content indeterminate
        self.state[path] = ("bot", "overlapped", step_id)
        return False

    def nack(self, path, step_id, why):
        path = self.key(path)
        if (step_id, path) in self.wopened:
            self.state[path] = ("bot", why, step_id)
        else:
            # the failed save never opened the target itself (open refused, or it wrote a side file that a later
            # load may promote): the content is the old one or - legally - still becomes the new one
            self.state[path] = ("bot", "aimed", step_id)


class SimRaw(io.RawIOBase):
    FD_BASE = 1_000_000
    _next_fd = [FD_BASE]

    def fileno(self):
        return self.fd

    @property
    def name(self):
        return getattr(self, "_name", self.path)

    @name.setter
    def name(self, v):          # tempfile assigns raw.name
        self._name = v

    @property
    def mode(self):
        return ("rb+" if self.reading else "wb") if self.writing else "rb"

    def isatty(self):
        return False

    def __init__(self, disk, path, reading, writing, append=False):
        super().__init__()
        SimRaw._next_fd[0] += 1
        self.fd = SimRaw._next_fd[0]
        disk.fds[self.fd] = path
        disk.raw_by_fd[self.fd] = self
        self.disk = disk
        self.path = path
        self.reading = reading
        self.writing = writing
        self.append = append
        self.pos = len(disk.files.get(path, b"")) if append else 0
        self.fault = disk.fault      # the fault armed for the step that opened this handle
        # a transient fault ("once"): a handle opened AFTER it fired (a retry, a rollback) meets a healthy device
        self.fault_seen_fired_at_open = bool(self.fault and self.fault.get("fired"))
        self.nshort = 0
        disk.open_handles += 1

    def readable(self):
        return self.reading

    def writable(self):
        return self.writing

    def seekable(self):
        return True

    def tell(self):
        return self.pos

    def seek(self, offset, whence=0):
        size = len(self.disk.files.get(self.path, b""))
        if whence == 0:
            self.pos = offset
        elif whence == 1:
            self.pos += offset
        else:
            self.pos = size + offset
        if self.pos < 0:
            self.pos = 0
        return self.pos

    def truncate(self, size=None):
        buf = self.disk.files.setdefault(self.path, bytearray())
        size = self.pos if size is None else size
        if size < len(buf):
            del buf[size:]
        else:
            buf.extend(b"\x00" * (size - len(buf)))
        self.disk.touch(self.path)
        return size

    def readinto(self, b):
        data = self.disk.files.get(self.path, b"")
        f = self.fault
        if f and f.get("kind") == "read-eio" and self.pos >= f["at"]:
            f["fired"] = True
            self.disk.ev(self.path, "read-eio", self.pos)
            raise OSError(errno.EIO, os.strerror(errno.EIO), self.path)
        n = max(0, min(len(b), len(data) - self.pos))      # a file that shrank under an open reader reads as EOF
        if f and f.get("kind") == "read-eio":
            n = min(n, f["at"] - self.pos)          # deliver exactly `at` bytes before failing
        if f and f.get("kind") == "short-read" and n > 1:
            sizes = f["sizes"]
            k = sizes[self.nshort % len(sizes)]
            self.nshort += 1
            if k < n:
                n = max(1, k)
                f["fired"] = True
                # does the cut split a multi-byte UTF-8 sequence?
                nxt = self.pos + n
                if nxt < len(data) and (data[nxt] & 0xC0) == 0x80:
                    self.disk.probe("short_read_split_utf8")
        b[:n] = data[self.pos:self.pos + n]
        self.pos += n
        self.disk.ev(self.path, "read", n)
        return n

    def write(self, b):
        b = bytes(b)
        f = self.fault
        n = len(b)
        if f and f.get("kind") in ("enospc", "write-eio") and not (f.get("once") and f.get("fired") and self.fault_seen_fired_at_open):
            room = f["at"] - self.pos
            if room <= 0:
                f["fired"] = True
                code = errno.ENOSPC if f["kind"] == "enospc" else errno.EIO
                self.disk.ev(self.path, f["kind"], self.pos)
                raise OSError(code, os.strerror(code), self.path)
            n = min(n, room)                        # accept the bytes that fit, then fail on the next call
        if f and f.get("kind") == "short-write" and n > 1:
            sizes = f["sizes"]
            k = sizes[self.nshort % len(sizes)]
            self.nshort += 1
            if k < n:
                n = max(1, k)
                f["fired"] = True
        buf = self.disk.files.setdefault(self.path, bytearray())
        if self.append:
            self.pos = len(buf)
        # like a real descriptor opened without O_APPEND: write at own offset
        if len(buf) < self.pos:
            buf.extend(b"\x00" * (self.pos - len(buf)))
        buf[self.pos:self.pos + n] = b[:n]
        self.pos += n
        self.disk.touch(self.path)
        self.disk.ev(self.path, "write", n)
        return n

    def close(self):
        if self.closed:
            return
        try:
            f = self.fault
            if self.writing and f and f.get("kind") == "flush-eio" and not f.get("fired"):
                f["fired"] = True
                self.disk.ev(self.path, "flush-eio")
                raise OSError(errno.EIO, os.strerror(errno.EIO), self.path)
        finally:
            self.disk.open_handles -= 1
            super().close()


# =========================================================================== process-wide virtualisation
CURRENT = [None]       # the SimDisk of the history/reference that is running in this process (None: pass everything through)
_INSTALLED = [False]


def install_dispatch():
    """installed ONCE per interpreter, BEFORE the library is imported: names that the library binds at import time
    (`from os import stat`, `def load(..., open_fcn=open)`) then already are the dispatching wrappers"""
    if _INSTALLED[0]:
        return
    _INSTALLED[0] = True
    GlobalFS(None).install()


def activate(disk):
    CURRENT[0] = disk
    install_dispatch()


class GlobalFS:
    """Installs the simulated device for the whole (forked, short-lived) process, not only as the module attribute
    `open` of two library modules: builtins.open / io.open, os.stat / lstat, os.replace / rename / remove / unlink,
    os.fsync / fdatasync and therefore pathlib.Path.open/stat/exists/replace/unlink/read_text/write_text all see the
    same simulated files.  A changed library that stats a file, writes a temporary file and renames it over the
    target, syncs, or opens through pathlib meets a faithful device instead of the real file system.
    Simulated paths are relative names without a directory component; everything else is passed through."""

    def __init__(self, disk):
        self._disk = disk
        self.real = {}

    @property
    def disk(self):
        return self._disk if self._disk is not None else CURRENT[0]

    def is_sim(self, path):
        if self.disk is None:
            return False
        try:
            p = os.fspath(path)
        except TypeError:
            return False
        if not isinstance(p, str) or not p:
            return False
        n = self.disk.key(p)
        return not os.path.isabs(n) and os.sep not in n and n not in (".", "..")

    def norm(self, path):
        return self.disk.key(path)

    def install(self):
        import builtins

        class _D:       # every access goes to the disk that is current NOW
            def __getattr__(_, name):
                return getattr(self.disk, name)
        d = _D()
        real_open, real_stat, real_lstat = builtins.open, os.stat, os.lstat
        real_replace, real_rename, real_remove, real_unlink = os.replace, os.rename, os.remove, os.unlink
        real_fsync, real_fdatasync = os.fsync, os.fdatasync
        self.real = dict(open=real_open, stat=real_stat)
        fs = self

        def sim_open(file, mode="r", buffering=-1, encoding=None, errors=None, newline=None, closefd=True, opener=None):
            if isinstance(file, int) and file >= SimRaw.FD_BASE and fs.disk is not None and file in fs.disk.raws:
                return d.wrap_fd(file, mode, buffering, encoding, errors, newline)
            if opener is not None and fs.disk is not None and not isinstance(file, int):
                # emulate io.open's opener protocol, because the opener may itself go through the (simulated) os.open
                # - tempfile.NamedTemporaryFile does
                m = mode.replace("t", "").replace("b", "")
                flags = {"r": os.O_RDONLY, "w": os.O_WRONLY | os.O_CREAT | os.O_TRUNC, "a": os.O_WRONLY | os.O_CREAT | os.O_APPEND,
                         "x": os.O_WRONLY | os.O_CREAT | os.O_EXCL}.get(m.replace("+", ""), os.O_RDONLY)
                if "+" in m:
                    flags = (flags & ~(os.O_WRONLY | os.O_RDONLY)) | os.O_RDWR
                fd = opener(file, flags)
                if isinstance(fd, int) and fd in fs.disk.raws:
                    return d.wrap_fd(fd, mode, buffering, encoding, errors, newline)
                return real_open(fd, mode, buffering, encoding, errors, newline, True, None)
            if not isinstance(file, int) and fs.is_sim(file):
                return d.open(fs.norm(file), mode, buffering, encoding, errors, newline)
            return real_open(file, mode, buffering, encoding, errors, newline, closefd, opener)

        def sim_stat(path, *a, **kw):
            if isinstance(path, int) and path >= SimRaw.FD_BASE and fs.disk is not None and path in fs.disk.fds:
                return fs.disk.stat(fs.disk.fds[path])
            if not isinstance(path, int) and fs.is_sim(path) and (fs.norm(path) in d.files or not _real_exists(path)):
                return d.stat(fs.norm(path))
            return real_stat(path, *a, **kw)

        def sim_lstat(path, *a, **kw):
            if not isinstance(path, int) and fs.is_sim(path):
                return d.stat(fs.norm(path))
            return real_lstat(path, *a, **kw)

        def _real_exists(p):
            try:
                real_lstat(p)
                return True
            except OSError:
                return False

        def sim_replace(src, dst, *a, **kw):
            s, t = fs.is_sim(src), fs.is_sim(dst)
            if s and fs.norm(src) not in d.files and _real_exists(src):
                s = False       # a temporary file that was created through an API the device does not emulate
            if s and t:
                return d.rename(fs.norm(src), fs.norm(dst))
            if t and not s:
                # a real temporary file (tempfile.mkstemp ...) moved over a simulated target
                with real_open(src, "rb") as f:
                    data = f.read()
                real_remove(src)
                return d.put_raw(fs.norm(dst), data)
            if s and not t:
                raise OSError(18, "simulated device: cross-device rename", os.fspath(src))
            return real_replace(src, dst, *a, **kw)

        def sim_remove(path, *a, **kw):
            if fs.is_sim(path) and (fs.norm(path) in d.files or not _real_exists(path)):
                return d.remove(fs.norm(path))
            return real_remove(path, *a, **kw)

        def sim_fsync(fd):
            if isinstance(fd, int) and fd >= SimRaw.FD_BASE:
                d.ev("fd", "fsync", fd)
                d.probe("fsync_calls")
                return None
            return real_fsync(fd)

        real_os_open, real_write, real_read, real_close = os.open, os.write, os.read, os.close

        def sim_os_open(path, flags, mode=0o777, *, dir_fd=None):
            if dir_fd is None and not isinstance(path, int) and fs.is_sim(path):
                return d.os_open(fs.norm(path), flags)
            return real_os_open(path, flags, mode, dir_fd=dir_fd) if dir_fd is not None else real_os_open(path, flags, mode)

        def _raw(fd):
            dk = fs.disk
            return dk.raws.get(fd) if (dk is not None and isinstance(fd, int) and fd >= SimRaw.FD_BASE) else None

        def sim_write(fd, data):
            r = _raw(fd)
            if r is not None:
                view = memoryview(data).tobytes()
                n = 0
                while n < len(view):
                    n += r.write(view[n:])
                return n
            return real_write(fd, data)

        def sim_read(fd, n):
            r = _raw(fd)
            if r is not None:
                b = bytearray(n)
                k = r.readinto(b)
                return bytes(b[:k])
            return real_read(fd, n)

        def sim_close(fd):
            r = _raw(fd)
            if r is not None:
                fs.disk.raws.pop(fd, None)
                return r.close()
            return real_close(fd)

        real_listdir = os.listdir

        def sim_listdir(path="."):
            names = real_listdir(path)
            dk = fs.disk
            if dk is not None and not isinstance(path, int):
                p = os.path.normpath(os.fspath(path)) if not isinstance(path, bytes) else None
                if p is not None and (p == "." or p in dk.cwds):
                    names = sorted(set(names) | set(dk.files))        # simulated files live in the current directory
            return names

        os.listdir = sim_listdir
        os.open, os.write, os.read, os.close = sim_os_open, sim_write, sim_read, sim_close
        real_access, real_fstat, real_chmod, real_utime = os.access, os.fstat, os.chmod, os.utime

        def sim_access(path, mode, *a, **kw):
            if not isinstance(path, int) and fs.is_sim(path):
                return fs.norm(path) in d.files
            return real_access(path, mode, *a, **kw)

        def sim_fstat(fd):
            dk = fs.disk
            if dk is not None and isinstance(fd, int) and fd >= SimRaw.FD_BASE and fd in dk.fds:
                return dk.stat(dk.fds[fd])
            return real_fstat(fd)

        def sim_chmod(path, *a, **kw):
            if not isinstance(path, int) and fs.is_sim(path):
                if fs.norm(path) not in d.files:
                    raise FileNotFoundError(errno.ENOENT, os.strerror(errno.ENOENT), os.fspath(path))
                return None
            return real_chmod(path, *a, **kw)

        def sim_utime(path, *a, **kw):
            if not isinstance(path, int) and fs.is_sim(path):
                if fs.norm(path) not in d.files:
                    raise FileNotFoundError(errno.ENOENT, os.strerror(errno.ENOENT), os.fspath(path))
                return None
            return real_utime(path, *a, **kw)

        real_sendfile, real_lseek = getattr(os, "sendfile", None), os.lseek

        def sim_sendfile(out_fd, in_fd, *a, **kw):
            if max(out_fd, in_fd) >= SimRaw.FD_BASE:
                raise OSError(errno.EINVAL, "simulated device: no sendfile", None)      # shutil falls back to read/write
            return real_sendfile(out_fd, in_fd, *a, **kw)

        def _anyraw(fd):
            dk = fs.disk
            return dk.raw_by_fd.get(fd) if (dk is not None and isinstance(fd, int) and fd >= SimRaw.FD_BASE) else None

        def sim_lseek(fd, pos, how):
            r = _anyraw(fd)
            if r is not None:
                return r.seek(pos, how)
            if isinstance(fd, int) and fd >= SimRaw.FD_BASE:
                raise OSError(errno.EBADF, os.strerror(errno.EBADF))
            return real_lseek(fd, pos, how)

        real_ftruncate, real_fchmod = os.ftruncate, os.fchmod
        real_pread, real_pwrite = getattr(os, "pread", None), getattr(os, "pwrite", None)
        real_fallocate = getattr(os, "posix_fallocate", None)

        def sim_ftruncate(fd, n):
            r = _anyraw(fd)
            if r is not None:
                keep = r.pos
                r.truncate(n)
                r.pos = keep
                return None
            return real_ftruncate(fd, n)

        def sim_fchmod(fd, mode):
            if _anyraw(fd) is not None:
                return None
            return real_fchmod(fd, mode)

        def sim_pread(fd, n, off):
            r = _anyraw(fd)
            if r is not None:
                keep = r.pos
                r.pos = off
                try:
                    b = bytearray(n)
                    k = r.readinto(b)
                    return bytes(b[:k or 0])
                finally:
                    r.pos = keep
            return real_pread(fd, n, off)

        def sim_pwrite(fd, data, off):
            r = _anyraw(fd)
            if r is not None:
                keep = r.pos
                r.pos = off
                try:
                    return r.write(memoryview(data).tobytes())
                finally:
                    r.pos = keep
            return real_pwrite(fd, data, off)

        def sim_fallocate(fd, off, n):
            r = _anyraw(fd)
            if r is not None:
                buf = r.disk.files.setdefault(r.path, bytearray())
                if len(buf) < off + n:
                    buf.extend(b"\x00" * (off + n - len(buf)))
                return None
            return real_fallocate(fd, off, n)

        os.ftruncate, os.fchmod = sim_ftruncate, sim_fchmod
        if real_pread is not None:
            os.pread, os.pwrite = sim_pread, sim_pwrite
        if real_fallocate is not None:
            os.posix_fallocate = sim_fallocate
        try:
            import mmap as _mmap
            real_mmap = _mmap.mmap

            class _SimMap(bytes):
                """read-only mapping of a simulated file (a snapshot of its bytes, like MAP_PRIVATE)"""
                def close(self):
                    return None

                def size(self):
                    return len(self)

                def __enter__(self):
                    return self

                def __exit__(self, *a):
                    return False

            def sim_mmap(fileno, length, *a, **kw):
                r = _anyraw(fileno)
                if r is None:
                    return real_mmap(fileno, length, *a, **kw)
                access = kw.get("access", a[2] if len(a) > 2 else _mmap.ACCESS_DEFAULT)
                data = bytes(r.disk.files.get(r.path, b""))
                if access != _mmap.ACCESS_READ and not (len(a) > 1 or "prot" in kw) :
                    # the device does not offer shared writable mappings (as some real file systems do not)
                    raise OSError(errno.ENODEV, os.strerror(errno.ENODEV))
                if length == 0 and not data:
                    raise ValueError("cannot mmap an empty file")
                return _SimMap(data if length == 0 else data[:length])
            _mmap.mmap = sim_mmap
        except ImportError:
            pass

        real_listxattr = getattr(os, "listxattr", None)

        def sim_listxattr(path=None, *a, **kw):
            if path is not None and not isinstance(path, int) and fs.is_sim(path):
                return []
            return real_listxattr(path, *a, **kw)

        if real_listxattr is not None:
            os.listxattr = sim_listxattr
        if real_sendfile is not None:
            os.sendfile = sim_sendfile
        os.lseek = sim_lseek
        os.access, os.fstat, os.chmod, os.utime = sim_access, sim_fstat, sim_chmod, sim_utime
        try:
            import fcntl
            real_flock, real_lockf = fcntl.flock, fcntl.lockf

            def sim_flock(fd, *a, **kw):
                fdn = fd if isinstance(fd, int) else fd.fileno()
                if fdn >= SimRaw.FD_BASE:
                    return None         # advisory locks on the simulated device always succeed (single process)
                return real_flock(fd, *a, **kw)

            def sim_lockf(fd, *a, **kw):
                fdn = fd if isinstance(fd, int) else fd.fileno()
                if fdn >= SimRaw.FD_BASE:
                    return None
                return real_lockf(fd, *a, **kw)
            fcntl.flock, fcntl.lockf = sim_flock, sim_lockf
        except ImportError:
            pass
        builtins.open = sim_open
        io.open = sim_open
        os.stat, os.lstat = sim_stat, sim_lstat
        os.replace, os.rename = sim_replace, sim_replace
        os.remove, os.unlink = sim_remove, sim_remove
        os.fsync, os.fdatasync = sim_fsync, sim_fsync
