"""Simulated raw file device under CPython's real TextIOWrapper / Buffered* layers.

Short reads and short writes are injected where they are legal (the raw layer), and the
buffering code that must absorb them is the real one.  Every raw call is an event.
"""
import errno
import io
import os


class SimDisk:
    def __init__(self, buffer_size=8192, log=None):
        self.files = {}          # path -> bytearray
        self.state = {}          # path -> ('ack', step_id) | ('bot', why)   ; absent = never written
        self.buffer_size = buffer_size
        self.log = log if log is not None else []
        self.fault_stack = [None]   # current step's armed I/O fault (top of stack)
        self.step_stack = [None]    # current step id
        self.open_handles = 0
        self.probes = {}
        self.wopened = set()     # (step id, path) pairs that truncated the path

    # -- fault plumbing
    def arm(self, step_id, fault):
        self.step_stack.append(step_id)
        self.fault_stack.append(dict(fault) if fault else None)

    def disarm(self):
        self.step_stack.pop()
        return self.fault_stack.pop()

    @property
    def fault(self):
        return self.fault_stack[-1]

    @property
    def step(self):
        return self.step_stack[-1]

    def ev(self, *a):
        self.log.append(("io",) + a)

    def probe(self, name):
        self.probes[name] = self.probes.get(name, 0) + 1

    # -- the seam: assigned to <module>.open
    def open(self, file, mode="r", buffering=-1, encoding=None, errors=None, newline=None, *args, **kwargs):
        """text and binary modes r / w / a / x with optional '+', like the builtin (the library itself uses
        'r' and 'w'; the other modes exist so that a changed library meets a faithful device, not a harness error)"""
        path = os.fspath(file)
        m = mode.replace("t", "")
        binary = "b" in m
        m = m.replace("b", "")
        plus = "+" in m
        base = m.replace("+", "")
        if base not in ("r", "w", "a", "x") or len(base) != 1:
            raise ValueError(f"invalid mode: {mode!r}")
        writing = base in ("w", "a", "x") or plus
        reading = base == "r" or plus
        f = self.fault
        if f and f.get("kind") == "open-fail" and not f.get("fired") and f.get("on", "any") in ("any", "w" if base != "r" else "r"):
            f["fired"] = True
            self.ev(path, "open-fail", f["errno"])
            raise OSError(getattr(errno, f["errno"]), os.strerror(getattr(errno, f["errno"])), path)
        if base == "r" and path not in self.files:
            self.ev(path, "open-r-enoent")
            raise FileNotFoundError(errno.ENOENT, os.strerror(errno.ENOENT), path)
        if base == "x" and path in self.files:
            raise FileExistsError(errno.EEXIST, os.strerror(errno.EEXIST), path)
        if writing:
            prev = self.state.get(path)
            if prev and prev[0] == "ack":
                self.probe("overwrite_of_acknowledged_file")
            if prev and prev[0] == "bot" and prev[1] == "inflight":
                self.probe("write_open_while_dump_in_flight")
            if base in ("w", "x") or path not in self.files:
                self.files[path] = bytearray()        # 'w' truncates at open, like the real call
            self.wopened.add((self.step, path))
            self.state[path] = ("bot", "inflight", self.step)
            self.ev(path, "open-" + mode)
        else:
            st = self.state.get(path)
            if st and st[0] == "bot" and st[1] == "inflight":
                self.probe("load_while_dump_in_flight")
            self.ev(path, "open-r")
        raw = SimRaw(self, path, reading, writing, append=(base == "a"))
        bs = self.buffer_size if buffering in (-1, None) or buffering < 1 else buffering
        if plus:
            buf = io.BufferedRandom(raw, buffer_size=bs)
        elif writing:
            buf = io.BufferedWriter(raw, buffer_size=bs)
        else:
            buf = io.BufferedReader(raw, buffer_size=bs)
        if binary:
            return buf
        return io.TextIOWrapper(buf, encoding=encoding or "utf-8", errors=errors, newline=newline)

    # -- model bookkeeping, called by the engine
    def seen_state(self, path):
        st = self.state.get(path)
        if st is None:
            return ["absent"]
        return list(st)

    def ack(self, path, step_id):
        st = self.state.get(path)
        if st and st[0] == "bot" and st[1] == "inflight" and st[2] == step_id:
            self.state[path] = ("ack", step_id)
            return True
        # somebody else wrote in between: both writers leave the content indeterminate
        self.state[path] = ("bot", "overlapped", step_id)
        return False

    def nack(self, path, step_id, why):
        # a write that never truncated (open refused, failure before open) leaves the old content valid
        if (step_id, path) in self.wopened:
            self.state[path] = ("bot", why, step_id)


class SimRaw(io.RawIOBase):
    def __init__(self, disk, path, reading, writing, append=False):
        super().__init__()
        self.disk = disk
        self.path = path
        self.reading = reading
        self.writing = writing
        self.append = append
        self.pos = len(disk.files.get(path, b"")) if append else 0
        self.fault = disk.fault      # the fault armed for the step that opened this handle
        self.nshort = 0
        disk.open_handles += 1

    def readable(self):
        return self.reading

    def writable(self):
        return self.writing

    def seekable(self):
        return True

    def tell(self):
        return self.pos

    def seek(self, offset, whence=0):
        size = len(self.disk.files.get(self.path, b""))
        if whence == 0:
            self.pos = offset
        elif whence == 1:
            self.pos += offset
        else:
            self.pos = size + offset
        if self.pos < 0:
            self.pos = 0
        return self.pos

    def truncate(self, size=None):
        buf = self.disk.files.setdefault(self.path, bytearray())
        size = self.pos if size is None else size
        del buf[size:]
        return size

    def readinto(self, b):
        data = self.disk.files.get(self.path, b"")
        f = self.fault
        if f and f.get("kind") == "read-eio" and self.pos >= f["at"]:
            f["fired"] = True
            self.disk.ev(self.path, "read-eio", self.pos)
            raise OSError(errno.EIO, os.strerror(errno.EIO), self.path)
        n = min(len(b), len(data) - self.pos)
        if f and f.get("kind") == "read-eio":
            n = min(n, f["at"] - self.pos)          # deliver exactly `at` bytes before failing
        if f and f.get("kind") == "short-read" and n > 1:
            sizes = f["sizes"]
            k = sizes[self.nshort % len(sizes)]
            self.nshort += 1
            if k < n:
                n = max(1, k)
                f["fired"] = True
                # does the cut split a multi-byte UTF-8 sequence?
                nxt = self.pos + n
                if nxt < len(data) and (data[nxt] & 0xC0) == 0x80:
                    self.disk.probe("short_read_split_utf8")
        b[:n] = data[self.pos:self.pos + n]
        self.pos += n
        self.disk.ev(self.path, "read", n)
        return n

    def write(self, b):
        b = bytes(b)
        f = self.fault
        n = len(b)
        if f and f.get("kind") in ("enospc", "write-eio"):
            room = f["at"] - self.pos
            if room <= 0:
                f["fired"] = True
                code = errno.ENOSPC if f["kind"] == "enospc" else errno.EIO
                self.disk.ev(self.path, f["kind"], self.pos)
                raise OSError(code, os.strerror(code), self.path)
            n = min(n, room)                        # accept the bytes that fit, then fail on the next call
        if f and f.get("kind") == "short-write" and n > 1:
            sizes = f["sizes"]
            k = sizes[self.nshort % len(sizes)]
            self.nshort += 1
            if k < n:
                n = max(1, k)
                f["fired"] = True
        buf = self.disk.files.setdefault(self.path, bytearray())
        if self.append:
            self.pos = len(buf)
        # like a real descriptor opened without O_APPEND: write at own offset
        if len(buf) < self.pos:
            buf.extend(b"\x00" * (self.pos - len(buf)))
        buf[self.pos:self.pos + n] = b[:n]
        self.pos += n
        self.disk.ev(self.path, "write", n)
        return n

    def close(self):
        if self.closed:
            return
        try:
            f = self.fault
            if self.writing and f and f.get("kind") == "flush-eio" and not f.get("fired"):
                f["fired"] = True
                self.disk.ev(self.path, "flush-eio")
                raise OSError(errno.EIO, os.strerror(errno.EIO), self.path)
        finally:
            self.disk.open_handles -= 1
            super().close()
