"""C20 workload: multi-client call histories over a shared pool (DESIGN 3.2, 3.3, Appendix A)."""
from .seed import Streams
from .canon import enc
from . import gen_common as G
from .canon import dec as C_dec
import copy

OP_GROUPS = ["net", "xform", "ssm", "cir", "td", "tran", "imp", "sig", "ld", "file", "churn", "reent"]
# groups with many leaf kinds and short menu items are drawn more often, so that step kinds are balanced
GROUP_WEIGHT = {"net": 4, "xform": 2, "cir": 2, "ld": 2, "churn": 2, "reent": 2}


def plan(seed, overrides=None):
    S = Streams(seed)
    rc = S("config")
    cfg = {
        "clients": rc.randint(2, 5),
        "steps_per_client": rc.randint(2, 8),
        "groups": sorted(rc.sample(OP_GROUPS, rc.randint(3, len(OP_GROUPS)))),
        "group_weights": True,
        "degenerate_rate": rc.choice([0.0, 0.1, 0.1, 0.25]),
        "nest_p": rc.choice([0.0, 0.2, 0.4, 0.6]),
        "wrap_p": rc.choice([0.0, 0.3, 0.6]),
        "fault_mode": rc.choice(["none", "none", "interrupt", "interrupt", "io", "mixed", "mixed"]),
        "mtime_mode": rc.choice(["fine", "fine", "coarse", "frozen"]),
        "buffer_size": rc.choice([1, 2, 3, 7, 16, 64, 512, 8192]),
        "n_nets": rc.randint(1, 3),
        "n_cirs": rc.randint(1, 3),
        "share_p": rc.choice([0.5, 0.8, 1.0]),
    }
    if rc.random() < 0.3:
        # "cut" runs: short histories whose point is an operation cut short part-way (interrupt@k placed uniformly
        # inside the call, or a raising callback), balanced over op kinds, followed by the same call again
        cfg.update({"cut_mode": True, "clients": rc.randint(1, 2), "steps_per_client": rc.randint(2, 5),
                    "groups": sorted(rc.sample(OP_GROUPS, rc.randint(1, 2))), "fault_mode": "interrupt", "nest_p": 0.0})
    if overrides:
        cfg.update(overrides)
    recipes = {}
    rr = S("recipes")

    # ---- pool
    nets, cirs = [], []
    for i in range(cfg["n_nets"]):
        name = f"net{i}"
        if rr.random() < 0.3:
            rec, cv, lv = G.gen_ssm_network(rr)
            recipes[name] = rec
            recipes[name + "_cv"] = {"kind": "value", "v": enc(cv)}
            recipes[name + "_lv"] = {"kind": "value", "v": enc(lv)}
        else:
            recipes[name] = G.gen_network(rr, degenerate=rr.random() < cfg["degenerate_rate"])
            ids = G.network_ids(recipes[name])
            recipes[name + "_cv"] = {"kind": "value", "v": enc({})}
            recipes[name + "_lv"] = {"kind": "value", "v": enc({})}
        ids = G.network_ids(recipes[name])
        recipes[name + "_keep"] = {"kind": "keep", "net": name, "ids": rr.sample(ids, rr.randint(0, min(3, len(ids)))),
                                   "share": rr.random() < 0.8}
        # the same names with other values (a parameter sweep reuses ids): defeats memoisation on partial keys
        for suffix in ("_cv", "_lv"):
            v = dict(recipes[name + suffix]["v"])
            recipes[name + suffix + "2"] = {"kind": "value", "v": enc({k: x * rr.choice([2, 4.7, 0.1]) for k, x in v.items()})}
        nets.append(name)
        if rr.random() < 0.5:
            sib = _sibling_network(rr, recipes[name])
            if sib is not None:
                sname = name + "s"
                recipes[sname] = sib
                for suffix in ("_cv", "_lv", "_cv2", "_lv2"):
                    recipes[sname + suffix] = recipes[name + suffix]
                recipes[sname + "_keep"] = dict(recipes[name + "_keep"], net=sname)
                nets.append(sname)
    for i in range(cfg["n_cirs"]):
        name = f"cir{i}"
        if rr.random() < 0.5:
            recipes[name] = G.gen_template_circuit(rr)
        else:
            recipes[name] = G.gen_circuit(rr, degenerate=rr.random() < cfg["degenerate_rate"])
        cirs.append(name)
        if rr.random() < 0.5:
            sib = _sibling_circuit(rr, recipes[name])
            if sib is not None:
                recipes[name + "s"] = sib
                cirs.append(name + "s")
    recipes["wlist"] = {"kind": "value", "v": enc(sorted(rr.sample([0, 1.0, 10.0, 100.0, 314.0, 2.5, 20.0], rr.randint(1, 4))))}
    recipes["warr"] = {"kind": "ndarray", "v": enc(sorted(rr.sample([0, 1.0, 10.0, 100.0, 314.0, 2.5], rr.randint(1, 3))))}
    n_t = rr.choice([5, 8, 20, 40])
    t_end = rr.choice([1e-3, 0.05, 1.0, 10.0])
    recipes["tgrid"] = {"kind": "ndarray", "v": enc([t_end * k / (n_t - 1) for k in range(n_t)])}
    recipes["tgrid0"] = {"kind": "ndarray", "v": enc([])}
    t_off = rr.choice([0.05, 1e-3, 2.0])
    recipes["tgrid1"] = {"kind": "ndarray", "v": enc([t_off + t_end * k / (n_t - 1) for k in range(n_t)])}   # does not start at 0
    recipes["wlist2"] = {"kind": "value", "v": enc([x * 2 + 1 for x in C_dec(recipes["wlist"]["v"])])}
    recipes["wlist3"] = {"kind": "value", "v": enc(rr.choice([[100.0, 0, 10.0, 10.0], [10, 2.5, 0], [314.0, 1, 1.0, -0.0]]))}   # unsorted, duplicates, ints
    for c in cirs:
        ids = G.circuit_ids(recipes[c])
        recipes[c + "_inputs"] = {"kind": "inputs", "map": {i: rr.choice([{"fn": "const", "c": 1.0}, {"fn": "step", "t0": t_end / 3, "x1": 2.0},
                                                                           {"fn": "sin", "a": 1.0, "w": 3.0 / t_end}]) for i in ids}}
        nodes = G.circuit_nodes(recipes[c])
        recipes[c + "_pn"] = {"kind": "value", "v": enc(rr.sample(nodes, rr.randint(0, min(2, len(nodes)))))}
        recipes[c + "_vi"] = {"kind": "value", "v": enc(rr.sample(ids, rr.randint(0, min(2, len(ids)))))}
        recipes[c + "_ci"] = {"kind": "value", "v": enc(rr.sample(ids, rr.randint(0, min(2, len(ids)))))}
    recipes["pf0"] = {"kind": "pf", "wave": rr.choice(["rect", "tri", "saw", "cos", "sin", "const"]),
                      "args": enc({"period": rr.choice([1.0, 0.02, 6.283185307179586]), "amplitude": rr.choice(G.V_VALUES),
                                   "phase": rr.choice(G.PHI_VALUES), "offset": rr.choice([0, 1.5])})}
    recipes["desc0"] = G.gen_net_description(rr, degenerate=rr.random() < cfg["degenerate_rate"])
    recipes["desc0s"] = _sibling_description(rr, recipes["desc0"])
    recipes["cdesc0"] = G.gen_cir_description(rr, degenerate=rr.random() < cfg["degenerate_rate"])
    recipes["doc0"] = G.gen_document_recipe(rr, python_form=True)
    recipes["ndoc0"] = G.gen_document_recipe(rr, python_form=False)
    recipes["entry0"] = {"kind": "value", "v": enc(G.gen_cir_entry(rr, "E1", ["0", "1", "a"]))}
    z = G.cx(rr)
    recipes["z0"] = {"kind": "value", "v": enc(G.notation(rr, z))}

    # ---- client scripts
    world = {"nets": nets, "cirs": cirs, "recipes": recipes, "cfg": cfg}
    scripts = []
    counter = [0]
    for c in range(cfg["clients"]):
        rs = S("client", c)
        scripts.append(_script(rs, c, world, counter))

    steps = _interleave(S("sched"), scripts, cfg)
    _place_faults(S("faults"), steps, cfg)
    return {"property": "C20", "seed": seed, "config": cfg, "recipes": recipes, "steps": steps}


def _sibling_network(r, rec):
    """near-duplicate: same ids and topology, exactly one thing changed"""
    sib = copy.deepcopy(rec)
    if not sib["branches"]:
        return None
    b = r.choice(sib["branches"])
    how = r.choice(["value", "value", "swap_nodes", "order", "relabel", "relabel", "kind_swap", "zero", "zero"])
    if how == "zero":
        # the same branches on another reference node
        labels = [x for x in G.network_nodes(sib) if x != sib.get("zero", "0")]
        if labels:
            sib["zero"] = r.choice(labels)
            return sib
        how = "value"
    if how == "relabel":
        # the same ids and topology on another set of node labels
        labels = G.network_nodes(sib)
        zero = sib.get("zero", "0")
        cand = [x for x in labels if x != zero]
        if cand:
            old, new = r.choice(cand), r.choice(["zz", "A1", "Ωx", "77"])
            for br in sib["branches"]:
                br["n1"] = new if br["n1"] == old else br["n1"]
                br["n2"] = new if br["n2"] == old else br["n2"]
        return sib
    if how == "kind_swap":
        # an ideal voltage source becomes a current source of the same id (other split of the source mappings)
        for br in sib["branches"]:
            if br["el"]["k"] == "voltage_source" and "Z" not in br["el"].get("args", {}):
                br["el"] = {"k": "current_source", "name": br["el"]["name"], "args": {"I": 1}}
                return sib
            if br["el"]["k"] == "current_source" and "Y" not in br["el"].get("args", {}):
                br["el"] = {"k": "voltage_source", "name": br["el"]["name"], "args": {"V": 1}}
                return sib
        how = "swap_nodes"
    if how == "value":
        args = b["el"].get("args", {})
        keys = [k for k, v in args.items() if isinstance(v, (int, float)) and not isinstance(v, bool)]
        if not keys:
            how = "swap_nodes"
        else:
            k = r.choice(keys)
            args[k] = args[k] * r.choice([2, 0.5, 3]) if args[k] else 1.0
    if how == "swap_nodes":
        b["n1"], b["n2"] = b["n2"], b["n1"]
    elif how == "order":
        sib["branches"].reverse()
    return sib


def _sibling_description(r, rec):
    """the same entry ids on other node labels / with another source kind"""
    sib = copy.deepcopy(rec)
    sib.pop("alias", None)
    ents = sib["v"]
    if not isinstance(ents, list) or not ents:
        return sib
    labels = sorted({e.get(k) for e in ents if isinstance(e, dict) for k in ("N1", "N2") if isinstance(e.get(k), str) and e.get(k) != "0"})
    if labels:
        old, new = r.choice(labels), r.choice(["zz", "A1", "77"])
        for e in ents:
            if isinstance(e, dict):
                for k in ("N1", "N2"):
                    if e.get(k) == old:
                        e[k] = new
    for e in ents:
        if isinstance(e, dict) and e.get("type") == "real_voltage_source" and r.random() < 0.5:
            e["type"] = "real_current_source"
            e["I"] = e.pop("V", 1)
            e["Y"] = e.pop("Z", 0)
            break
    return sib


def _sibling_circuit(r, rec):
    sib = copy.deepcopy(rec)
    cands = [c for c in sib["components"] if c.get("args")]
    if not cands:
        return None
    per = [c for c in cands if c["ctor"].startswith("periodic_")]
    if per and r.random() < 0.7:
        c = r.choice(per)
        if r.random() < 0.5:
            c["args"]["wavetype"] = r.choice([w for w in ["rect", "tri", "saw", "cos", "sin"] if w != c["args"]["wavetype"]])
            return sib
    else:
        c = r.choice(cands)
    keys = [k for k, v in c["args"].items() if isinstance(v, (int, float)) and not isinstance(v, bool)]
    if not keys:
        c["nodes"] = list(reversed(c["nodes"]))
        return sib
    k = r.choice(keys)
    c["args"][k] = c["args"][k] * r.choice([2, 4.7, 0.5]) if c["args"][k] else 1.0
    return sib


# --------------------------------------------------------------------------- scripts
def _script(r, client, world, counter):
    cfg = world["cfg"]
    out = []

    def add(op, a, **kw):
        counter[0] += 1
        s = {"id": f"s{counter[0]}", "client": client, "op": op, "a": a}
        s.update(kw)
        out.append(s)
        return {"h": s["id"]}

    groups = cfg["groups"]
    budget = cfg["steps_per_client"]
    guard = 0
    while len(out) < budget and guard < 50:
        guard += 1
        g = r.choice([x for x in groups for _ in range(GROUP_WEIGHT.get(x, 1))])
        net = r.choice(world["nets"])
        cir = r.choice(world["cirs"])
        nrec = world["recipes"][net]
        crec = world["recipes"][cir]
        nids = G.network_ids(nrec) or ["?"]
        nnodes = G.network_nodes(nrec) or ["0"]
        cids = G.circuit_ids(crec) or ["?"]
        cnodes = G.circuit_nodes(crec) or ["0"]
        P = lambda n: {"p": n}
        bad = r.random() < 0.08            # bad-argument steps: unknown ids
        if g == "net":
            k = r.choice(["solve", "port", "matrix", "props"])
            if k == "solve":
                h = add("net.solve", {"net": P(net)})
                if r.random() < 0.7:
                    add("nsol.all", {"sol": h})
                    if r.random() < 0.5:
                        add("nsol.query", {"sol": h, "q": r.choice(["potential", "voltage", "current", "power"]), "id": r.choice(nids + nnodes)})
                else:
                    add("nsol.query", {"sol": h, "q": r.choice(["potential", "voltage", "current", "power"]),
                                       "id": "__nope__" if bad else r.choice(nids + nnodes)})
            elif k == "port":
                f = r.choice(["ocv", "scc", "oci", "eli"])
                a = {"net": P(net), "f": f}
                if f == "eli":
                    a["id"] = "__nope__" if bad else r.choice(nids)
                else:
                    n1, n2 = (r.choice(nnodes), r.choice(nnodes))
                    a["n1"], a["n2"] = ("__nope__" if bad else n1), n2
                add("net.port", a)
            elif k == "matrix":
                add("net.matrix", {"net": P(net), "f": r.choice(["node_admittance_matrix", "voltage_source_incidence_matrix",
                                                                  "nodal_analysis_coefficient_matrix", "source_incidence_matrix",
                                                                  "current_source_vector", "nodal_analysis_constants_vector",
                                                                  "current_source_incidence_vector"])})
            else:
                add("net.props", {"net": P(net), "node": r.choice(nnodes), "node2": r.choice(nnodes)})
        elif g == "xform":
            f = r.choice(["switch_ground_node", "remove_element", "remove_open_circuit_elements", "remove_short_circuit_elements",
                          "short_circuitify_voltage_sources", "open_circuitify_current_sources", "remove_ideal_current_sources",
                          "remove_ideal_voltage_sources", "passive_network", "passive_network"])
            a = {"net": P(net), "f": f}
            if f == "switch_ground_node":
                a["node"] = "__nope__" if bad else r.choice(nnodes)
            elif f == "remove_element":
                a["id"] = "__nope__" if bad else r.choice(nids)
            elif f != "remove_open_circuit_elements":
                explicit = r.random() < 0.5
                if explicit:
                    a["keep"] = P(net + "_keep")
            h = add("net.xform", a)
            if f == "switch_ground_node" and r.random() < 0.7:
                # the same branches on two reference nodes, both solved and queried (either order)
                first, second = (P(net), h) if r.random() < 0.5 else (h, P(net))
                s1 = add("net.solve", {"net": first})
                s2 = add("net.solve", {"net": second})
                add("nsol.all", {"sol": s2})
                add("nsol.all", {"sol": s1})
            # explicit-shared call before, default call after (and the other way round by interleaving)
            if "keep" in a and r.random() < 0.7:
                add("net.xform", {"net": P(net), "f": f})
            follow = r.choice(["solve_child", "xform_child", "parent_after_child", "none"])
            if follow == "solve_child":
                hs = add("net.solve", {"net": h})
                add("nsol.all", {"sol": hs})
            elif follow == "xform_child":
                add("net.xform", {"net": h, "f": r.choice(["passive_network", "remove_open_circuit_elements", "remove_short_circuit_elements"])})
            elif follow == "parent_after_child":
                add("net.props", {"net": h, "node": r.choice(nnodes), "node2": r.choice(nnodes)})
                hs = add("net.solve", {"net": P(net)})
                add("nsol.all", {"sol": hs})
        elif g == "ssm":
            a = {"net": P(net)}
            mode = r.choice(["shared", "shared", "default", "cv_only"])
            two = "2" if r.random() < 0.35 else ""
            if mode in ("shared", "cv_only"):
                a["cv"] = P(net + "_cv" + two)
            if mode == "shared":
                a["lv"] = P(net + "_lv" + two)
            h = add("net.ssm", a)
            add("ssm.all", {"ssm": h})
            if r.random() < 0.5:
                h2 = add("net.ssm", {"net": P(net)} if mode != "default" else {"net": P(net), "cv": P(net + "_cv"), "lv": P(net + "_lv")})
                add("ssm.query", {"ssm": h2, "q": r.choice(["A", "B", "C", "D", "sources"])})
        elif g == "cir":
            k = r.choice(["transform", "freqs", "props", "dc", "cx", "fd", "ssm"])
            if k == "transform":
                f = r.choice(["transform_circuit", "transform", "transform"])
                a = {"cir": P(cir), "f": f}
                if f == "transform_circuit":
                    a["w"] = r.choice([0, 1.0, 10.0, 100.0, 314.0])
                    if r.random() < 0.3:
                        a["w_res"] = r.choice([1e-3, 1.0])
                elif r.random() < 0.5:
                    a["w"] = P(r.choice(["wlist", "wlist", "wlist2", "wlist3"]))
                h = add("cir.transform", a)
                if f == "transform" and "w" in a and r.random() < 0.7:
                    add("cir.transform", {"cir": P(cir), "f": "transform"})
                if f == "transform_circuit" and r.random() < 0.6:
                    hs = add("net.solve", {"net": h})
                    add("nsol.all", {"sol": hs})
            elif k == "freqs":
                add("cir.freqs", {"cir": P(cir), "w_max": r.choice([0, 50.0, 400.0, 1000.0])})
            elif k == "props":
                add("cir.props", {"cir": P(cir), "id": "__nope__" if bad else r.choice(cids)})
            elif k in ("dc", "cx", "fd"):
                if k == "dc":
                    h = add("cir.dc", {"cir": P(cir)})
                elif k == "cx":
                    h = add("cir.cx", {"cir": P(cir), "w": r.choice([0, 1.0, 10.0, 100.0, 314.0, 2.5]), "peak": r.random() < 0.5})
                else:
                    h = add("cir.fd", {"cir": P(cir), "w_max": r.choice([0, 50.0, 400.0]), "one_sided": r.random() < 0.8})
                # a solution object is asked again and again: single queries before and after the sweep over everything
                def one():
                    q = r.choice(["voltage", "current", "potential", "power"])
                    add("csol.query", {"sol": h, "q": q, "id": "__nope__" if r.random() < 0.1 else (r.choice(cnodes) if q == "potential" else r.choice(cids))})
                if r.random() < 0.5:
                    one()
                add("csol.all", {"sol": h})
                for _ in range(r.randint(0, 2)):
                    one()
            else:
                a = {"cir": P(cir)}
                for key, suffix in (("potential_nodes", "_pn"), ("voltage_ids", "_vi"), ("current_ids", "_ci")):
                    if r.random() < 0.6:
                        a[key] = P(cir + suffix)
                add("cir.ssm", a)
                if r.random() < 0.5:
                    add("cir.ssm", {"cir": P(cir)})
        elif g == "td":
            h = add("cir.td", {"cir": P(cir), "w_max": r.choice([0, 50.0, 400.0, 1000.0])})
            fns = []
            for _ in range(r.randint(1, 3)):
                q = r.choice(["voltage", "current", "potential", "power", "voltage"])
                i = "__nope__" if bad else (r.choice(cnodes) if q == "potential" else r.choice(cids))
                fns.append(add("tdsol.fn", {"sol": h, "q": q, "id": i}))
                # split-phase: other work happens between obtaining a time function and evaluating it
                if r.random() < 0.4:
                    add("cir.freqs", {"cir": P(cir), "w_max": 50.0})
                if r.random() < 0.5:
                    add("fn.eval", {"fn": r.choice(fns), "t": P(r.choice(["tgrid", "tgrid", "tgrid0", "tgrid1"]))})
            # every function obtained is evaluated (again) after all the later queries on the same solution object
            for fn in fns:
                add("fn.eval", {"fn": fn, "t": P(r.choice(["tgrid", "tgrid1"]))})
            if r.random() < 0.3:
                add("fn.eval", {"fn": fns[0], "t": {"lit": 0.25}})
        elif g == "tran":
            a = {"cir": P(cir), "tin": P(r.choice(["tgrid", "tgrid", "tgrid1"])), "inputs": P(cir + "_inputs")}
            if r.random() < 0.3:
                a["seam_on"] = "solver"
            h = add("cir.tran", a)
            add("csol.all", {"sol": h})
            if r.random() < 0.5:
                add("csol.query", {"sol": h, "q": r.choice(["voltage", "current", "power"]), "id": r.choice(cids)})
        elif g == "imp":
            f = r.choice(["open_circuit_impedance", "element_impedance", "open_circuit_dc_resistance", "element_dc_resistance"])
            a = {"cir": P(cir), "f": f}
            if "element" in f:
                a["id"] = "__nope__" if bad else r.choice(cids)
            else:
                a["n1"], a["n2"] = r.choice(cnodes), r.choice(cnodes)
            explicit = r.random() < 0.5 and f in ("open_circuit_impedance", "element_impedance")
            if explicit:
                a["w"] = P("warr")
            add("cir.imp", a)
            if explicit and r.random() < 0.7:
                b = dict(a)
                b.pop("w")
                add("cir.imp", b)
        elif g == "sig":
            k = r.choice(["pool_fs", "pool_tf", "new_pf", "step"])
            if k == "pool_fs":
                add("sig.fs", {"pf": P("pf0"), "ns": [0, 1, 2, 3, -1, 5]})
            elif k == "pool_tf":
                fn = add("sig.tf", {"pf": P("pf0")})
                add("fn.eval", {"fn": fn, "t": P("tgrid")})
            elif k == "new_pf" and r.random() < 0.5:
                args = enc({"period": r.choice([1.0, 0.02]), "amplitude": r.choice(G.V_VALUES), "phase": r.choice(G.PHI_VALUES)})
                w1, w2 = r.sample(["rect", "tri", "saw", "cos", "sin"], 2)
                h1 = add("sig.pf", {"wave": w1, "args": args})
                h2 = add("sig.pf", {"wave": w2, "args": args})
                add("sig.fs", {"pf": h1, "ns": [0, 1, 2, 3, 5]})
                add("sig.fs", {"pf": h2, "ns": [0, 1, 2, 3, 5]})
                add("sig.fs", {"pf": h1, "ns": [1, 3]})
            elif k == "new_pf":
                h = add("sig.pf", {"wave": "__nope__" if bad else r.choice(["rect", "tri", "saw", "cos", "sin"]),
                                   "args": enc({"period": r.choice([1.0, 0.02]), "amplitude": r.choice(G.V_VALUES), "phase": r.choice(G.PHI_VALUES)})})
                add("sig.fs", {"pf": h, "ns": [0, 1, 2, 3]})
                fn = add("sig.tf", {"pf": h})
                add("fn.eval", {"fn": fn, "t": P("tgrid")})
            else:
                add("sig.step", {"t": P("tgrid"), "t0": 0.01, "x0": 0, "x1": 2})
        elif g == "ld":
            k = r.choice(["load_network", "to_complex", "gen_component", "undictify_circuit", "roundtrip", "undictify_all", "dictify_all", "flat"])
            if k == "load_network":
                h = add("ld.load_network", {"desc": P("desc0")})
                if r.random() < 0.6:
                    hs = add("net.solve", {"net": h})
                    add("nsol.all", {"sol": hs})
                if r.random() < 0.5:
                    add("ld.load_network", {"desc": P("desc0")})
            elif k == "to_complex":
                add("ld.to_complex", {"z": P("z0"), "degree": r.random() < 0.5})
            elif k == "gen_component":
                add("ld.gen_component", {"entry": P("entry0")})
            elif k == "undictify_circuit":
                h = add("ld.undictify_circuit", {"doc": P("cdesc0")})
                hs = add("cir.dc", {"cir": h})
                add("csol.all", {"sol": hs})
            elif k == "roundtrip":
                fmt = r.choice(["json", "yaml"])
                t = add("ld.serialize", {"doc": P("doc0"), "fmt": fmt})
                add("ld.deserialize", {"text": t, "fmt": fmt})
            elif k == "flat":
                add(r.choice(["ld.undictify_flat", "ld.dictify_flat"]), {"doc": P(r.choice(["ndoc0", "doc0"]))})
            elif k == "undictify_all":
                add("ld.undictify_all", {"doc": P("ndoc0")})
                if r.random() < 0.6:
                    add("ld.undictify_all", {"doc": P("ndoc0")})      # the same object again (also after a failed conversion)
            else:
                add("ld.dictify_all", {"doc": P("doc0")})
        elif g == "reent":
            # a caller-supplied callable that itself calls the library: the SAME kind of analysis on another object
            # (preferably a near-duplicate, so that sizes agree) runs in the middle of the outer one
            def other(names, cur):
                sibs = [x for x in names if x != cur and (x.rstrip("s") == cur.rstrip("s"))]
                rest = [x for x in names if x != cur]
                return r.choice(sibs) if sibs and r.random() < 0.6 else (r.choice(rest) if rest else cur)
            k = r.choice(["solve", "solve", "coef", "port", "ssm", "dc", "cx", "td", "tran", "ser", "dump"])
            at = r.choice([0, 1, 1, 2, 3])
            when = r.choice(["before", "after"])

            def nest(host, inner_steps):
                host["nested"] = [{"at": at, "when": when, "steps": inner_steps}]
                host["wrap"] = True

            def mk(op, a):
                counter[0] += 1
                return {"id": f"s{counter[0]}", "client": client, "op": op, "a": a}
            if k == "solve":
                h = add("net.solve", {"net": P(net)})
                inner = mk("net.solve", {"net": P(other(world["nets"], net))})
                nest(out[-1], [inner, mk("nsol.all", {"sol": {"h": inner["id"]}})])
                add("nsol.all", {"sol": h})
            elif k == "coef":
                f = r.choice(["nodal_analysis_coefficient_matrix", "node_admittance_matrix", "nodal_analysis_constants_vector"])
                add("net.matrix", {"net": P(net), "f": f})
                nest(out[-1], [mk("net.matrix", {"net": P(other(world["nets"], net)), "f": f})])
            elif k == "port":
                f = r.choice(["oci", "eli"])
                a = {"net": P(net), "f": f}
                b = {"net": P(other(world["nets"], net)), "f": f}
                if f == "eli":
                    a["id"] = r.choice(nids); b["id"] = r.choice(nids)
                else:
                    a["n1"], a["n2"] = r.choice(nnodes), r.choice(nnodes)
                    b["n1"], b["n2"] = a["n1"], a["n2"]
                add("net.port", a)
                nest(out[-1], [mk("net.port", b)])
            elif k == "ssm":
                h = add("net.ssm", {"net": P(net), "cv": P(net + "_cv"), "lv": P(net + "_lv")})
                o = other(world["nets"], net)
                inner = mk("net.ssm", {"net": P(o), "cv": P(o + "_cv"), "lv": P(o + "_lv")})
                nest(out[-1], [inner])
                add("ssm.all", {"ssm": h})
            elif k in ("dc", "cx", "td"):
                opn = {"dc": "cir.dc", "cx": "cir.cx", "td": "cir.td"}[k]
                extra = {} if k == "dc" else ({"w": r.choice([0, 10.0, 100.0])} if k == "cx" else {"w_max": r.choice([0, 50.0, 400.0])})
                h = add(opn, dict({"cir": P(cir)}, **extra))
                inner = mk(opn, dict({"cir": P(other(world["cirs"], cir))}, **extra))
                nest(out[-1], [inner, mk("csol.all", {"sol": {"h": inner["id"]}})] if k != "td" else [inner])
                if k == "td":
                    fn = add("tdsol.fn", {"sol": h, "q": "voltage", "id": r.choice(cids)})
                    add("fn.eval", {"fn": fn, "t": P("tgrid")})
                else:
                    add("csol.all", {"sol": h})
            elif k == "tran":
                h = add("cir.tran", {"cir": P(cir), "tin": P("tgrid"), "inputs": P(cir + "_inputs")})
                o = other(world["cirs"], cir)
                inner = mk("cir.tran", {"cir": P(o), "tin": P("tgrid"), "inputs": P(o + "_inputs")})
                nest(out[-1], [inner])
                add("csol.all", {"sol": h})
            elif k == "ser":
                fmt = r.choice(["json", "yaml"])
                t = add("ld.serialize", {"doc": P("doc0"), "fmt": fmt})
                nest(out[-1], [mk("ld.serialize", {"doc": P("ndoc0"), "fmt": r.choice(["json", "yaml"])})])
                add("ld.deserialize", {"text": t, "fmt": fmt})
            else:
                add("ld.dump", {"path": "a.json", "doc": P("doc0")})
                nest(out[-1], [mk("ld.dump", {"path": "side.json", "doc": P("ndoc0")}), mk("ld.load", {"path": "side.json"})])
                add("ld.load", {"path": "a.json"})
        elif g == "churn":
            # load / transform, solve, query, drop - again and again: results die, their memory is reused
            for _ in range(r.randint(2, 4)):
                x = r.random()
                if x < 0.3:
                    # parameter-sweep style: build a circuit, analyse it, let everything go, take the next variant
                    base = r.choice(world["cirs"])
                    fam = [c for c in world["cirs"] if c.rstrip("s") == base.rstrip("s")]
                    seq = fam if len(fam) > 1 and r.random() < 0.7 else r.sample(world["cirs"], min(len(world["cirs"]), 2))
                    if r.random() < 0.5:
                        seq = list(reversed(seq))
                    k = r.choice(["td", "fd", "fd", "cx", "transform"])
                    extra = {"td": {"w_max": r.choice([0, 50.0, 400.0])}, "fd": {"w_max": r.choice([50.0, 400.0])},
                             "cx": {"w": r.choice([0, 10.0, 100.0])}, "transform": {}}[k]
                    for c2 in seq:
                        h = add("cir.build", {"src": P(c2)})
                        if k == "transform":
                            hs = add("cir.transform", {"cir": h, "f": "transform", "w": P("wlist")})
                        else:
                            hs = add("cir." + k, dict({"cir": h}, **extra))
                            add("csol.all", {"sol": hs})
                        add("h.drop", {"x": hs})
                        add("h.drop", {"x": h})
                    continue
                if x < 0.5:
                    h = add("ld.load_network", {"desc": P(r.choice(["desc0", "desc0s"]))})
                elif x < 0.75:
                    c2 = r.choice(world["cirs"])
                    h = add("cir.transform", {"cir": P(c2), "f": "transform_circuit", "w": r.choice([0, 10.0, 100.0])})
                else:
                    n2 = r.choice(world["nets"])
                    h = add("net.xform", {"net": P(n2), "f": r.choice(["passive_network", "remove_open_circuit_elements", "short_circuitify_voltage_sources"])})
                hs = add("net.solve", {"net": h})
                add("nsol.all", {"sol": hs})
                add("h.drop", {"x": hs})
                add("h.drop", {"x": h})
        elif g == "file":
            path = r.choice(["a.json", "b.yaml", "c.json"])
            k = r.choice(["dump_load", "load", "put_netload", "cdl"])
            if k == "dump_load":
                add("ld.dump", {"path": path, "doc": P("doc0")})
                add("ld.load", {"path": path})
            elif k == "load":
                add("ld.load", {"path": path})
            elif k == "put_netload":
                add("fs.put", {"path": "net.json", "doc": P("desc0")})
                h = add("ld.load_net_json", {"path": "net.json"})
                if r.random() < 0.5:
                    add("net.props", {"net": h, "node": "0", "node2": "1"})
            else:
                add("cdl.save", {"path": "cir.json", "cir": P(cir)})
                add("cdl.load", {"path": "cir.json"})
    return out[:budget + 6]


# --------------------------------------------------------------------------- schedule
SEAM_OPS = {"net.solve", "net.port", "net.matrix", "net.ssm", "cir.dc", "cir.cx", "cir.td", "cir.fd", "cir.tran",
            "ld.serialize", "ld.deserialize", "ld.dump", "ld.load"}


def _interleave(r, scripts, cfg, seam_ops=SEAM_OPS, nest_ok=None):
    queues = [list(s) for s in scripts]
    steps = []
    while any(queues):
        live = [i for i, q in enumerate(queues) if q]
        c = r.choice(live)
        s = queues[c].pop(0)
        if s["op"] in seam_ops:
            if r.random() < cfg["wrap_p"]:
                s["wrap"] = True
            others = [i for i in live if i != c and queues[i]]
            if others and r.random() < cfg["nest_p"]:
                nested = []
                for _ in range(r.randint(1, 2)):
                    others = [i for i in others if queues[i] and (nest_ok is None or nest_ok(s, queues[i][0]))]
                    if not others:
                        break
                    o = r.choice(others)
                    n = queues[o].pop(0)
                    # depth 2: a nested step with a seam may host one more step
                    if n["op"] in seam_ops and r.random() < 0.3:
                        deeper = [i for i in others if i != o and queues[i] and (nest_ok is None or nest_ok(n, queues[i][0]))]
                        if deeper:
                            n["nested"] = [{"at": 0, "steps": [queues[r.choice(deeper)].pop(0)]}]
                    nested.append(n)
                if nested:
                    s.setdefault("nested", []).append({"at": r.choice([0, 0, 1, 1, 2, 3]), "when": r.choice(["before", "before", "after"]), "steps": nested})
        steps.append(s)
    return steps


def _all_steps(steps):
    for s in steps:
        yield s
        for n in s.get("nested", []) or []:
            yield from _all_steps(n["steps"])


QUERY_OPS = {"csol.all", "csol.query", "nsol.all", "nsol.query", "tdsol.fn", "ssm.all", "ssm.query"}


def engine_consumed(step):
    out = []

    def walk(v):
        if isinstance(v, dict):
            if "h" in v and len(v) == 1:
                out.append(v["h"])
            else:
                for x in v.values():
                    walk(x)
        elif isinstance(v, list):
            for x in v:
                walk(x)
    walk(step.get("a", {}))
    return out


IO_OPS_R = {"ld.load", "ld.load_net_json", "cdl.load"}
IO_OPS_W = {"ld.dump", "cdl.save"}


def _place_faults(r, steps, cfg):
    mode = cfg["fault_mode"]
    if mode == "none":
        return
    cands = [s for s in _all_steps(steps) if not s.get("nested")]
    if not cands:
        return
    n_faults = r.randint(1, 4)
    # >= 60 % of the steps of a fault-injecting run stay fault free
    n_faults = min(n_faults, max(1, int(0.4 * len(cands))))
    for _ in range(n_faults):
        kind = mode if mode != "mixed" else r.choice(["interrupt", "io"])
        if kind == "io":
            io = [s for s in cands if s["op"] in IO_OPS_R | IO_OPS_W and "fault" not in s]
            if not io:
                kind = "interrupt"
            else:
                seen, over = set(), []
                for s2 in _all_steps(steps):
                    if s2["op"] in IO_OPS_W:
                        if s2["a"]["path"] in seen and "fault" not in s2 and not s2.get("nested"):
                            over.append(s2)          # a dump over a path written earlier: there is state to lose
                        seen.add(s2["a"]["path"])
                s = r.choice(over) if over and r.random() < 0.5 else r.choice(io)
                s["fault"] = gen_io_fault(r, s["op"] in IO_OPS_W)
                continue
        free = [s for s in cands if "fault" not in s and s["op"] != "fs.put"]
        if not free:
            return
        # a user-supplied callable that a result object carries along (node mapper, solver) fails during a LATER
        # query on that object: the producer passes a wrapped callable (in the history and in the reference alike)
        byid = {x["id"]: x for x in _all_steps(steps)}
        cons = []
        for x in free:
            if x["op"] in QUERY_OPS:
                hs = [byid.get(h) for h in engine_consumed(x)]
                if hs and hs[0] is not None and hs[0]["op"] in seam_ops_all() and hs[0].get("fault", {}).get("kind") != "seam-raise":
                    cons.append((x, hs[0]))
        # a failed query matters when the same object is queried again afterwards: those get three lots
        order = {x["id"]: i for i, x in enumerate(_all_steps(steps))}
        later = lambda x, prod: any(y is not x and order[y["id"]] > order[x["id"]] for y, p2 in cons if p2 is prod)
        cons = [c for c in cons for _ in range(3 if later(*c) else 1)]
        if cons and r.random() < 0.25:
            x, prod = r.choice(cons)
            prod["wrap"] = True
            x["fault"] = {"kind": "cb-raise", "at": r.choice([0, 1, 1, 2, 3]), "exc": r.choice(["interrupt", "memory", "callback", "callback"])}
            continue
        # balanced over op kinds: first a kind that occurs in this run, then one of its steps
        kinds = sorted({_kind_key(x) for x in free})
        kk = r.choice(kinds)
        s = r.choice([x for x in free if _kind_key(x) == kk])
        if cfg.get("cut_mode"):
            # the same call once more, fault free, right after the cut one (top level only)
            for lst in (steps,):
                if s in lst:
                    again = {k2: v for k2, v in s.items() if k2 not in ("fault", "nested", "wrap")}
                    again["id"] = s["id"] + "r"
                    lst.insert(lst.index(s) + 1, again)
        if s["op"] in seam_ops_all() and s["op"] != "sc.foreign_ctx" and r.random() < 0.3:
            # a user-supplied callable (solver / input signal / mapper / dump function) raises in mid-analysis
            s["fault"] = {"kind": "seam-raise", "at": r.choice([0, 0, 1, 2]), "exc": r.choice(["interrupt", "memory", "callback", "callback"])}
            continue
        s["fault"] = {"kind": "interrupt", "k": interrupt_k(r, s), "exc": r.choice(["interrupt", "interrupt", "memory"])}


def _kind_key(s):
    a = s.get("a", {})
    return s["op"] + "|" + str(a.get("f") or a.get("q") or "")


_LINECOUNTS = None


def interrupt_k(r, s):
    """70 %: uniform inside the call (1 .. 90th percentile of the measured line count of this op kind, see
    tools_linecounts.py); 30 %: log-distributed, so that the first lines (argument handling) stay covered"""
    global _LINECOUNTS
    if _LINECOUNTS is None:
        import json
        import os
        p = os.path.join(os.path.dirname(os.path.abspath(__file__)), "linecounts.json")
        _LINECOUNTS = json.load(open(p)) if os.path.exists(p) else {}
    a = s.get("a", {})
    key = s["op"] + "|" + str(a.get("f") or a.get("q") or "")
    lc = _LINECOUNTS.get(key)
    if lc and lc[1] >= 2 and r.random() < 0.7:
        return r.randint(1, min(int(lc[1]), 6000))
    return int(round(2 ** r.uniform(0, 9)))


def seam_ops_all():
    return SEAM_OPS


def gen_io_fault(r, writing):
    if writing:
        k = r.choice(["open-fail", "short-write", "short-write", "enospc", "write-eio", "flush-eio"])
        if k == "open-fail":
            return {"kind": k, "errno": r.choice(["EACCES", "EMFILE", "EIO", "ENOSPC"]), "on": "w"}
        if k == "short-write":
            return {"kind": k, "sizes": [r.randint(1, 9) for _ in range(r.randint(1, 4))]}
        if k in ("enospc", "write-eio"):
            return {"kind": k, "at": r.choice([0, 1, 5, 17, 64, 200]), "once": r.random() < 0.5}
        return {"kind": k}
    k = r.choice(["open-fail", "short-read", "short-read", "read-eio"])
    if k == "open-fail":
        return {"kind": k, "errno": r.choice(["ENOENT", "EACCES", "EMFILE", "EIO"]), "on": "r"}
    if k == "short-read":
        return {"kind": k, "sizes": [r.randint(1, 9) for _ in range(r.randint(1, 4))]}
    return {"kind": k, "at": r.choice([0, 1, 5, 17, 64, 200])}
