"""C15 workload: save/load histories of generated schematics over the simulated file device,
k-fold cycles, and declarative element lists paired with their programmatic twins."""
from .seed import Streams
from .canon import enc
from . import gen_common as G
from .gen_c20 import _interleave, _place_faults

GROUPS = ["cycle_mem", "cycle_file", "mixed_cycle", "inspect", "stale_load", "declarative", "declarative", "overwrite"]
SEAM_OPS = set()

SRC_KINDS = ["voltage_source", "current_source", "ac_voltage_source", "ac_current_source", "rect_voltage_source",
             "rect_current_source", "complex_voltage_source", "complex_current_source"]
PAS_KINDS = ["resistor", "conductance", "impedance", "capacitor", "inductance"]
DECADES = [1e-6, 1e-3, 0.1, 1, 4.7, 10, 220, 1e3, 4.7e4, 1e6, 3.14159265, 0.123456789, 1234.56789, 1e-10, 5e-13, 2.5e9]


def _cx(r):
    """complex values over many decades, including parts that are tiny relative to 1 (not rounding residue!)"""
    if r.random() < 0.2:
        return r.choice([complex(3e-10, -4e-10), complex(10, 5e-10), complex(2e-10, -2), complex(-7e-12, 1e3), complex(1e-9, 1e-9)])
    return G.cx(r)


def _kw(r, kind, name, flags=True):
    kw = {"name": name}
    if kind != "line" and kind != "ground" and r.random() < 0.45:
        kw["reverse"] = r.random() < 0.7
    if kind == "voltage_source":
        kw["V"] = r.choice(G.V_VALUES)
    elif kind == "current_source":
        kw["I"] = r.choice(G.I_VALUES)
    elif kind in ("ac_voltage_source", "ac_current_source", "rect_voltage_source", "rect_current_source"):
        kw["V" if "voltage" in kind else "I"] = r.choice(G.V_VALUES)
        kw["w"] = r.choice(G.W_VALUES)
        kw["phi"] = r.choice([0, 0, 0.5, -1.0, 30, 90, 1.5707963267948966])
        if flags and r.random() < 0.3:
            kw["deg"] = r.random() < 0.8
        if flags and r.random() < 0.3:
            kw["sin"] = r.random() < 0.8
            if kw["sin"] and r.random() < 0.35:
                kw["phi"] = 1.5707963267948966          # sin(wt + 90 deg): the cosine-referenced phase is exactly 0
    elif kind == "complex_voltage_source":
        kw["V"] = _cx(r) * r.choice([1, 10])
    elif kind == "complex_current_source":
        kw["I"] = _cx(r)
        if r.random() < 0.85:
            kw["reverse"] = True          # the unreversed symbol does not translate at all (outside C15's domain)
    elif kind == "resistor":
        kw["R"] = r.choice(DECADES)
    elif kind == "conductance":
        kw["G"] = 1 / r.choice(DECADES)
    elif kind == "impedance":
        kw["Z"] = _cx(r) * r.choice([1, 10, 1e3])
    elif kind == "capacitor":
        kw["C"] = r.choice(G.C_VALUES)
    elif kind == "inductance":
        kw["L"] = r.choice(G.L_VALUES)
    elif kind == "ground":
        kw = {} if r.random() < 0.5 else {"name": r.choice(["0", "GND", "gnd"])}
    elif kind == "line":
        kw = {}
    if kind in PAS_KINDS + ["ac_voltage_source", "ac_current_source"] and r.random() < 0.2:
        kw[r.choice(["show_name", "show_value"])] = False
    if kind not in ("line", "ground") and r.random() < 0.15:
        kw["precision"] = r.choice([2, 4])
    return enc(kw)


def _same_width(v):
    """another number whose repr has the same length (so that the two saved files have the same size)"""
    if isinstance(v, bool) or not isinstance(v, (int, float)):
        return v
    s = repr(v)
    for i, ch in enumerate(s):
        if ch in "123456789":
            t = s[:i] + ("7" if ch != "7" else "3") + s[i + 1:]
            try:
                w = type(v)(t)
            except ValueError:
                return v
            return w if len(repr(w)) == len(s) else v
    return v


def value_twin(rec):
    """the same drawing with other values of the same printed width in its first and its last valued element: a
    file that is partly the one and partly the other is well formed and describes a circuit nobody saved"""
    import copy
    tw = copy.deepcopy(rec)
    valued = [e for e in tw["elems"] if any(k in e.get("kw", {}) for k in ("V", "I", "R", "G", "C", "L"))]
    for e in ([valued[0], valued[-1]] if len(valued) > 1 else valued):
        for k in ("V", "I", "R", "G", "C", "L"):
            if k in e["kw"]:
                e["kw"][k] = _same_width(e["kw"][k])
    return tw


def gen_chain_drawing(r, flags=True):
    """a loop drawn purely cursor-style (every element starts where the previous one ended, no coordinates in
    the user parameters), optionally with a second mesh; returns (recipe, sibling) where the sibling is the same
    chain preceded by a wire, i.e. the same elements at other absolute positions"""
    unit = r.choice([3, 5, 7])
    S = float(unit)
    names = G.element_names(r, 8)
    dirs = r.choice([["up", "right", "down", "left"], ["right", "down", "left", "up"], ["down", "left", "up", "right"]])
    kinds = [r.choice(SRC_KINDS[:4]), r.choice(PAS_KINDS), r.choice(PAS_KINDS), "line"]
    elems = []
    for k, (kind, d) in enumerate(zip(kinds, dirs)):
        elems.append({"cls": kind, "kw": _kw(r, kind, names[k], flags), "dir": d, "len": S})
    if r.random() < 0.5:
        # second mesh hanging on the far side: starts at the end of the 2nd element
        k2 = r.choice(PAS_KINDS)
        elems.append({"cls": k2, "kw": _kw(r, k2, names[5], flags), "dir": dirs[1], "len": S, "at": {"el": 1, "anchor": "end"}})
        elems.append({"cls": "resistor", "kw": _kw(r, "resistor", names[6], flags), "dir": dirs[2], "len": S})
        elems.append({"cls": "line", "kw": enc({}), "dir": dirs[3], "len": S})
    if r.random() < 0.8:
        elems.append({"cls": "ground", "kw": _kw(r, "ground", "0")})
    rec = {"kind": "drawing", "unit": unit, "ctx": r.random() < 0.5, "elems": elems}
    import copy
    sib = copy.deepcopy(rec)
    lead = {"cls": "line", "kw": enc({}), "dir": r.choice(["right", "up"]), "len": S * r.choice([1, 2])}
    sib["elems"].insert(0, lead)
    for e in sib["elems"][1:]:
        if "at" in e and "el" in e["at"]:
            e["at"]["el"] += 1
    return rec, sib


def gen_drawing(r, flags=True):
    """connected sub-graph of a small integer grid; every edge is a symbol or a wire placed along it in
    one of the four directions, explicitly or cursor-style"""
    nx, ny = r.choice([(2, 2), (3, 2), (2, 3), (3, 2)])
    unit = r.choice([3, 5, 7, 8])
    S = float(unit) * r.choice([1, 1, 0.5, 2, 0.37, 1.005, 3.3333333333333335])
    # the whole drawing may sit far from the origin or at negative / non-integer coordinates
    ox, oy = r.choice([(0.0, 0.0), (0.0, 0.0), (-50.0, 12.5), (1000.005, -0.004), (0.12345, 7.0), (-3 * S, -2 * S),
                    (10000.0, 0.0), (-12345.0, 12345.0), (0.25, 123456.5)])
    pts = [(i, j) for i in range(nx) for j in range(ny)]
    edges = []
    for (i, j) in pts:
        if i + 1 < nx:
            edges.append(((i, j), (i + 1, j)))
        if j + 1 < ny:
            edges.append(((i, j), (i, j + 1)))
    # one cell's perimeter first (a closed loop), then more edges
    cell = [((0, 0), (0, 1)), ((0, 1), (1, 1)), ((1, 0), (1, 1)), ((0, 0), (1, 0))]
    rest = [e for e in edges if e not in cell]
    r.shuffle(rest)
    chosen = cell + rest[:r.randint(0, min(5, len(rest)))]
    # keep it connected: drop edges not reachable from the cell
    reach = {(0, 0), (0, 1), (1, 1), (1, 0)}
    changed = True
    keep = list(cell)
    pending = [e for e in chosen if e not in cell]
    while changed:
        changed = False
        for e in list(pending):
            if e[0] in reach or e[1] in reach:
                reach.update(e)
                keep.append(e)
                pending.remove(e)
                changed = True
    chosen = keep[:9]
    r.shuffle(chosen)
    names = G.element_names(r, len(chosen) + 1)
    elems = []
    ends = []          # (start point, end point) of placed elements, in grid coordinates
    n_src = n_pas = 0
    for k, (p, q) in enumerate(chosen):
        if r.random() < 0.5:
            p, q = q, p
        left = len(chosen) - k
        x = r.random()
        if (n_src == 0 and left <= 2) or x < 0.3:
            kind = r.choice(SRC_KINDS)
            n_src += 1
        elif (n_pas == 0 and left <= 1) or x < 0.75:
            kind = r.choice(PAS_KINDS)
            n_pas += 1
        else:
            kind = "line"
        dx, dy = q[0] - p[0], q[1] - p[1]
        direction = "right" if dx > 0 else "left" if dx < 0 else "up" if dy > 0 else "down"
        e = {"cls": kind, "kw": _kw(r, kind, names[k], flags), "dir": direction, "len": S}
        # placement: cursor (no at) / reference to a coinciding anchor / explicit coordinates
        opts = ["xy"]
        if ends and ends[-1][1] == p:
            opts += ["cursor", "cursor"]
        refs = [(i, a) for i, (s0, e0) in enumerate(ends) for a, pt in (("start", s0), ("end", e0)) if pt == p]
        if refs:
            opts += ["ref"]
        o = r.choice(opts)
        if not ends and p == (0, 0) and (ox, oy) == (0.0, 0.0) and r.random() < 0.5:
            o = "cursor"
        if o == "xy":
            e["at"] = {"xy": [ox + p[0] * S, oy + p[1] * S]}
        elif o == "ref":
            i, a = r.choice(refs)
            e["at"] = {"el": i, "anchor": a}
        elems.append(e)
        ends.append((p, q))
    # ground symbol at some node (usually)
    if r.random() < 0.85:
        g = r.choice(sorted(reach & {pt for ed in chosen for pt in ed}))
        e = {"cls": "ground", "kw": _kw(r, "ground", "0")}
        if ends and ends[-1][1] == g and r.random() < 0.5:
            pass
        else:
            e["at"] = {"xy": [ox + g[0] * S, oy + g[1] * S]}
        if r.random() < 0.3:
            e["dir"] = r.choice(["right", "left", "up", "down"])
        elems.insert(len(elems), e)
        if r.random() < 0.1:      # a second ground: MultipleGroundNodes, outside the domain (counted as discarded)
            elems.append({"cls": "ground", "kw": enc({"name": "g2"}), "at": {"xy": [ox + S, oy + S]}})
    return {"kind": "drawing", "unit": unit, "ctx": r.random() < 0.5, "elems": elems}


DECL_KINDS = ["resistor", "conductance", "impedance", "capacitor", "inductance", "line", "node", "lamp", "ground",
              "voltage_source", "ac_voltage_source", "complex_voltage_source", "current_source", "ac_current_source",
              "complex_current_source", "admittance"]


def gen_declarative(r):
    unit = r.choice([3, 5, 7, 7, 8])
    n = r.randint(2, 8)
    names = G.element_names(r, n + 2)
    loop = r.choice([["up", "right", "down", "left"], ["right", "down", "left", "up"], ["down", "right", "up", "left"],
                     ["left", "up", "right", "down"]])
    els = []
    named = []
    for k in range(n):
        kind = r.choice(DECL_KINDS) if k else r.choice(["voltage_source", "ac_voltage_source", "current_source", "complex_voltage_source"])
        e = {"type": kind}
        nm = names[k]
        if kind == "resistor":
            e.update(name=nm, R=r.choice(DECADES))
        elif kind == "conductance":
            e.update(name=nm, G=1 / r.choice(DECADES))
        elif kind == "impedance":
            e.update(name=nm, Z=G.cx(r) * 10)
        elif kind == "admittance":
            e.update(name=nm, Y=G.cx(r) * 0.1)
        elif kind == "capacitor":
            e.update(name=nm, C=r.choice(G.C_VALUES))
        elif kind == "inductance":
            e.update(name=nm, L=r.choice(G.L_VALUES))
        elif kind == "lamp":
            e.update(name=nm, V_ref=r.choice([5, 12, 230]), P_ref=r.choice([1, 10, 60]))
        elif kind == "line":
            if r.random() < 0.3:
                e.update(name=nm)
        elif kind == "node":
            e.update(name=nm)
        elif kind == "ground":
            e.update(name=r.choice(["GND", "0", "gnd"]))      # always named: what an anonymous ground is called is not C15's business
        elif kind == "voltage_source":
            e.update(name=nm, V=r.choice(G.V_VALUES))
        elif kind == "current_source":
            e.update(name=nm, I=r.choice(G.I_VALUES))
        elif kind == "ac_voltage_source":
            e.update(name=nm, V=r.choice(G.V_VALUES), w=r.choice(G.W_VALUES), phi=r.choice(G.PHI_VALUES))
        elif kind == "ac_current_source":
            e.update(name=nm, I=r.choice(G.I_VALUES), w=r.choice(G.W_VALUES), phi=r.choice(G.PHI_VALUES))
        elif kind == "complex_voltage_source":
            e.update(name=nm, V=G.cx(r) * 5)
        elif kind == "complex_current_source":
            e.update(name=nm, I=G.cx(r), reverse=True)
        if kind not in ("ground", "node", "line") and "reverse" not in e and r.random() < 0.35:
            e["reverse"] = r.random() < 0.8
        if kind not in ("ground", "node") :
            if r.random() < 0.85:
                e["direction"] = loop[k % 4] if r.random() < 0.7 else r.choice(["right", "left", "up", "down"])
            if r.random() < 0.4:
                e["length"] = r.choice([1, 0.5, 2, 1.5])
        elif kind == "ground" and r.random() < 0.15:
            e["direction"] = r.choice(["right", "down"])
        if named and r.random() < 0.25:
            e["place_after"] = r.choice(named)
        if r.random() < 0.03:
            e.pop(r.choice([k2 for k2 in e.keys()]))           # malformed entry: must fail on both sides
        if e.get("name"):
            named.append(e["name"])
        keys = list(e.keys())
        r.shuffle(keys)
        els.append({k2: e[k2] for k2 in keys})
    data = {"elements": els}
    rec_alias = None
    wires = [i for i, e in enumerate(els) if e.get("type") == "line" and "name" not in e and "place_after" not in e]
    if len(wires) >= 1 and r.random() < 0.3:
        # the same dictionary object used twice in the element list (what a YAML anchor / alias produces)
        i = r.choice(wires)
        els.insert(r.randint(i + 1, len(els)), dict(els[i]))
        j = [k for k, e in enumerate(els) if e == els[i] and k != i][0]
        rec_alias = [[["elements", i], ["elements", j]]]
    if r.random() < 0.8:
        data["unit"] = unit
    if r.random() < 0.3 and named:
        sol = {"type": r.choice(["dc", "complex", "real"])}
        sol[r.choice(["voltages", "currents", "powers"])] = [{"name": r.choice(named + ["nope"])}]
        data["solution"] = sol
    rec = {"kind": "value", "v": enc(data)}
    if rec_alias:
        rec["alias"] = rec_alias
    return rec


def plan(seed, overrides=None):
    S = Streams(seed)
    rc = S("config")
    cfg = {
        "clients": rc.randint(2, 4),
        "steps_per_client": rc.randint(2, 8),
        "groups": sorted(rc.sample(GROUPS, rc.randint(2, len(GROUPS)))),
        "nest_p": rc.choice([0.2, 0.5, 0.9]),
        "wrap_p": rc.choice([0.0, 0.3]),
        "fault_mode": rc.choice(["none", "io", "io", "io", "interrupt", "mixed", "mixed"]),
        "mtime_mode": rc.choice(["fine", "fine", "coarse", "frozen"]),
        "buffer_size": rc.choice([1, 3, 7, 64, 512, 8192]),
        "n_drawings": rc.randint(1, 3),
        "flags": rc.random() < 0.8,
    }
    if overrides:
        cfg.update(overrides)
    rr = S("recipes")
    recipes = {}
    for i in range(cfg["n_drawings"]):
        recipes[f"dr{i}"] = gen_drawing(rr, cfg["flags"])
        recipes[f"decl{i}"] = gen_declarative(rr)
    if rr.random() < 0.5:
        # the same declarative list once more, preceded by a wire (same labels at other coordinates)
        import copy
        n = cfg["n_drawings"]
        base = copy.deepcopy(recipes["decl0"])
        base.pop("alias", None)
        els = base["v"].get("elements", [])
        els.insert(0, {"type": "line", "direction": rr.choice(["right", "up"]), "length": rr.choice([1, 2])})
        recipes[f"decl{n}"] = base
        recipes[f"dr{n}"] = recipes["dr0"]
        cfg["n_drawings"] = n + 1
    if rr.random() < 0.45:
        # a cursor-style chain and its shifted sibling: identical elements at other absolute positions
        a, b = gen_chain_drawing(rr, cfg["flags"])
        n = cfg["n_drawings"]
        recipes[f"dr{n}"], recipes[f"dr{n + 1}"] = a, b
        recipes[f"decl{n}"] = recipes["decl0"]
        recipes[f"decl{n + 1}"] = recipes["decl0"]
        cfg["n_drawings"] = n + 2
    if S("vtwin").random() < 0.5:
        n = cfg["n_drawings"]
        recipes[f"dr{n}"] = value_twin(recipes["dr0"])
        recipes[f"decl{n}"] = recipes["decl0"]
        cfg["vtwin"] = ["dr0", f"dr{n}"]
        cfg["n_drawings"] = n + 1
    world = {"cfg": cfg, "recipes": recipes}
    counter = [0]
    scripts = [_script(S("client", c), c, world, counter) for c in range(cfg["clients"])]
    # load/deserialize are never run inside a foreign open `with Schematic()` block (DESIGN 4.C15)
    ok_inside = {"sc.create", "sc.translate", "sc.solve", "sc.serialize", "sc.dump"}
    steps = _interleave(S("sched"), scripts, cfg, SEAM_OPS,
                        nest_ok=lambda host, st: st["op"] in ok_inside if host["op"] == "sc.foreign_ctx" else st["op"] != "sc.foreign_ctx")
    _place_faults_c15(S("faults"), steps, cfg)
    return {"property": "C15", "seed": seed, "config": cfg, "recipes": recipes, "steps": steps}


def _place_faults_c15(r, steps, cfg):
    from .gen_c20 import _all_steps, gen_io_fault
    mode = cfg["fault_mode"]
    if mode == "none":
        return
    cands = [s for s in _all_steps(steps) if not s.get("nested")]
    if not cands:
        return
    for _ in range(min(r.randint(1, 3), max(1, int(0.4 * len(cands))))):
        kind = mode if mode != "mixed" else r.choice(["interrupt", "io"])
        io = [s for s in cands if s["op"] in ("sc.dump", "sc.load") and "fault" not in s]
        if kind == "io" and io:
            # faults belong where there is state to lose: prefer a dump that OVERWRITES a path written earlier in
            # the history, and a load of a path that was written
            seen, over = set(), []
            for s2 in _all_steps(steps):
                if s2["op"] == "sc.dump":
                    if s2["a"]["path"] in seen and "fault" not in s2 and not s2.get("nested"):
                        over.append(s2)
                    seen.add(s2["a"]["path"])
            s = r.choice(over) if over and r.random() < 0.6 else r.choice(io)
            s["fault"] = gen_io_fault(r, s["op"] == "sc.dump")
            # schematic files are large: spread the failure offsets over the whole file
            if "at" in s["fault"]:
                s["fault"]["at"] = r.choice([0, 1, 17, 200, 3000, 9000, 20000]) if r.random() < 0.5 else r.randint(20, 1500)
            continue
        free = [s for s in cands if "fault" not in s and s["op"] in ("sc.dump", "sc.load", "sc.serialize", "sc.deserialize", "sc.create")]
        if not free:
            return
        s = r.choice(free)
        from .gen_c20 import interrupt_k
        s["fault"] = {"kind": "interrupt", "k": interrupt_k(r, s) if r.random() < 0.7 else int(round(2 ** r.uniform(0, 13))),
                      "exc": r.choice(["interrupt", "interrupt", "memory"])}


def _script(r, client, world, counter):
    cfg = world["cfg"]
    out = []

    def add(op, a, **kw):
        counter[0] += 1
        s = {"id": f"s{counter[0]}", "client": client, "op": op, "a": a}
        s.update(kw)
        out.append(s)
        return {"h": s["id"]}
    P = lambda n: {"p": n}
    nd = cfg["n_drawings"]
    guard = 0
    while len(out) < cfg["steps_per_client"] and guard < 30:
        guard += 1
        g = r.choice(cfg["groups"])
        d = P(f"dr{r.randrange(nd)}")
        path = r.choice(["s.json", "t.json", "Ω.json"])
        if g in ("cycle_mem", "cycle_file", "mixed_cycle"):
            cur = d
            for _ in range(r.randint(1, 6 if g != "cycle_file" else 3)):
                via_file = g == "cycle_file" or (g == "mixed_cycle" and r.random() < 0.5)
                if via_file:
                    add("sc.dump", {"path": path, "d": cur})
                    cur = add("sc.load", {"path": path})
                else:
                    t = add("sc.serialize", {"d": cur, "fmt": "json"})
                    cur = add("sc.deserialize", {"text": t, "fmt": "json"})
            if r.random() < 0.3:
                add("sc.solve", {"d": cur, "kind": r.choice(["dc", "cx"]), "w": r.choice(G.W_VALUES)})
        elif g == "overwrite":
            # one path, two different drawings: the second dump replaces an acknowledged file (the place where an
            # I/O fault has something to destroy or to resurrect), then the path is loaded
            d2 = P(f"dr{r.randrange(nd)}")
            if cfg.get("vtwin") and r.random() < 0.75:
                a, b = cfg["vtwin"] if r.random() < 0.5 else cfg["vtwin"][::-1]
                d, d2 = P(a), P(b)
            add("sc.dump", {"path": path, "d": d})
            if r.random() < 0.4:
                add("sc.load", {"path": path})
            add("sc.dump", {"path": path, "d": d2})
            if cfg["fault_mode"] in ("io", "mixed") and r.random() < 0.5:
                # the save that replaces an acknowledged file fails somewhere inside the part that carries the values
                out[-1]["fault"] = {"kind": r.choice(["enospc", "write-eio"]), "at": r.randint(60, 600), "once": r.random() < 0.3}
            cur = add("sc.load", {"path": path})
            if r.random() < 0.4:
                t = add("sc.serialize", {"d": cur, "fmt": "json"})
                add("sc.deserialize", {"text": t, "fmt": "json"})
        elif g == "inspect":
            if r.random() < 0.5:
                add("sc.translate", {"d": d})
            else:
                add("sc.solve", {"d": d, "kind": r.choice(["dc", "cx"]), "w": r.choice(G.W_VALUES)})
        elif g == "stale_load" and r.random() < 0.4:
            # a damaged file is loaded (fails part-way), then ordinary cycles must still be right
            t = add("sc.serialize", {"d": d, "fmt": "json"})
            add("sc.mangle", {"text": t, "path": "bad.json", "pos": r.random(),
                              "how": r.choice(["drop_values", "bad_segments", "drop_name", "bad_circuit", "bad_params"])})
            add("sc.load", {"path": "bad.json"})
            t2 = add("sc.serialize", {"d": P(f"dr{r.randrange(nd)}"), "fmt": "json"})
            add("sc.deserialize", {"text": t2, "fmt": "json"})
        elif g == "stale_load":
            cur = add("sc.load", {"path": path})
            if r.random() < 0.5:
                t = add("sc.serialize", {"d": cur, "fmt": "json"})
                add("sc.deserialize", {"text": t, "fmt": "json"})
        elif g == "declarative":
            add("sc.create", {"data": P(f"decl{r.randrange(nd)}")})
        elif g == "foreign_ctx":
            add("sc.foreign_ctx", {"unit": r.choice([5, 7]), "names": [f"o{client}a", f"o{client}b"]})
            add("sc.create", {"data": P(f"decl{r.randrange(nd)}")})
    return out
