"""Canonical forms of results and snapshots, and the NaN-aware tolerant comparison.

Canonical form = nested lists of: str / int / bool / None / float / complex, where
 * every library object is reduced to its *public* state (never private attributes,
   never reprs), and
 * an exception is ['exc', class-name].
Numbers are compared with a relative tolerance and nan == nan, +-inf == +-inf (ideal
sources carry NaN V/I by construction).
"""
import dataclasses
import math
import cmath
import json

import numpy as np

REL_TOL = 1e-9


# --------------------------------------------------------------------------- JSON value coding
def enc(v):
    """python value -> JSON-able (complex, non-finite floats survive a json round trip)."""
    if isinstance(v, bool) or v is None or isinstance(v, (str, int)):
        return v
    if isinstance(v, float):
        if math.isfinite(v):
            return v
        return {"__f": repr(v)}
    if isinstance(v, complex):
        return {"__c": [enc(v.real), enc(v.imag)]}
    if isinstance(v, (list, tuple)):
        return [enc(x) for x in v]
    if isinstance(v, dict):
        return {str(k): enc(x) for k, x in v.items()}
    if isinstance(v, np.generic):
        return enc(v.item())
    if isinstance(v, np.ndarray):
        return enc(v.tolist())
    raise TypeError(f"cannot encode {type(v).__name__}")


def dec(v):
    if isinstance(v, list):
        return [dec(x) for x in v]
    if isinstance(v, dict):
        if len(v) == 1 and "__c" in v:
            re, im = v["__c"]
            return complex(dec(re), dec(im))
        if len(v) == 1 and "__f" in v:
            return float(v["__f"])
        if len(v) == 1 and "__t" in v:
            return tuple(dec(x) for x in v["__t"])
        return {k: dec(x) for k, x in v.items()}
    return v


# --------------------------------------------------------------------------- canonical form
def _num(x):
    if isinstance(x, (bool, np.bool_)):
        return bool(x)
    if isinstance(x, (int, np.integer)):
        return int(x)
    if isinstance(x, (float, np.floating)):
        return float(x)
    if isinstance(x, (complex, np.complexfloating)):
        return complex(x)
    raise TypeError


KEEP_ORDER = [False]


def canon(x, depth=0):
    if depth > 12:
        return ["deep"]
    if x is None or isinstance(x, str):
        return x
    if isinstance(x, (bool, np.bool_, int, np.integer, float, np.floating, complex, np.complexfloating)):
        return _num(x)
    if isinstance(x, BaseException):
        return ["exc", type(x).__name__]
    if isinstance(x, np.ndarray) and KEEP_ORDER[0]:
        # snapshot mode (O2): also what a result comparison deliberately ignores
        base = ["arr", list(x.shape), [canon(e, depth + 1) if x.dtype.kind not in "biufc" else _num(e) for e in x.ravel().tolist()]]
        return base + [str(x.dtype), bool(x.flags.writeable)]
    if isinstance(x, np.ndarray):
        if x.dtype.kind not in "biufc":
            return ["arr", list(x.shape), [canon(e, depth + 1) for e in x.ravel().tolist()]]
        return ["arr", list(x.shape), [_num(e) for e in x.ravel().tolist()]]
    if isinstance(x, tuple) and KEEP_ORDER[0]:
        return ["tuple"] + [canon(e, depth + 1) for e in x]
    if isinstance(x, (list, tuple)):
        return [canon(e, depth + 1) for e in x]
    if isinstance(x, dict) or (hasattr(x, "items") and hasattr(x, "keys") and hasattr(x, "__getitem__") and not isinstance(x, np.ndarray) and type(x).__name__ in ("mappingproxy", "OrderedDict", "ChainMap", "MappingProxyType")):
        items = [(canon(k, depth + 1), canon(v, depth + 1)) for k, v in x.items()]
        if not KEEP_ORDER[0]:
            try:
                items.sort(key=lambda kv: repr(kv[0]))
            except Exception:
                pass
        return ["dict"] + [[k, v] for k, v in items]
    if isinstance(x, (set, frozenset)):
        return ["set"] + sorted((canon(e, depth + 1) for e in x), key=repr)
    if hasattr(x, "_verif_canon"):
        return x._verif_canon()
    # library objects, by duck typing on public attributes (no private state, no repr)
    tn = type(x).__name__
    if tn in ("NortenElement", "TheveninElement"):
        return ["elm", x.name, x.type, canon(_safe(lambda: x.Z)), canon(_safe(lambda: x.Y)),
                canon(_safe(lambda: x.V)), canon(_safe(lambda: x.I))]
    if tn == "Schematic" or any(k.__name__ == "Schematic" for k in type(x).__mro__):
        from .ops_draw import canon_schematic
        return canon_schematic(x)
    if tn == "Branch":
        return ["br", x.node1, x.node2, canon(x.element, depth + 1)]
    if tn == "Network":
        return ["net", x.node_zero_label, [canon(b, depth + 1) for b in x.branches]]
    if tn == "Component":
        return ["cmp", x.type, x.id, canon(x.nodes, depth + 1), canon(x.value, depth + 1)]
    if tn == "Circuit":
        return ["cir", x.ground_node, [canon(c, depth + 1) for c in x.components]]
    if tn == "LabelMapping":
        return ["lmap", canon(x.mapping, depth + 1)]
    if tn in ("StateSpaceModel", "NodalStateSpaceModel"):
        out = ["ssm", canon(x.A), canon(x.B), canon(x.C), canon(x.D)]
        if tn == "NodalStateSpaceModel":
            out += [canon(_safe(lambda: x.sources), depth + 1), canon(x.c_values, depth + 1), canon(x.l_values, depth + 1)]
        return out
    if dataclasses.is_dataclass(x) and not isinstance(x, type):
        pub = [(f.name, canon(getattr(x, f.name, None), depth + 1)) for f in dataclasses.fields(x)
               if not f.name.startswith("_") and not callable(getattr(x, f.name, None))]
        return ["dc", tn] + [[k, v] for k, v in pub]
    if callable(x):
        return ["callable"]
    return ["obj", tn]


def _safe(f):
    try:
        return f()
    except Exception as e:  # a property that raises is part of the public state
        return e.with_traceback(None)


# --------------------------------------------------------------------------- comparison
def _isnum(a):
    return isinstance(a, (int, float, complex)) and not isinstance(a, bool)


def _partclose(pa, pb, tol):
    if math.isnan(pa) or math.isnan(pb):
        return math.isnan(pa) and math.isnan(pb)
    if math.isinf(pa) or math.isinf(pb):
        return pa == pb
    return abs(pa - pb) <= tol


ABS_FLOOR = 1e-12      # times the largest magnitude anywhere in the two results: rounding residue of O(scale) terms
_GLOBAL = [0.0]


def _numclose(a, b, scale):
    if a == b:
        return True
    ca, cb = complex(a), complex(b)
    mag = scale
    for p in (ca.real, ca.imag, cb.real, cb.imag):
        if math.isfinite(p) and abs(p) > mag:
            mag = abs(p)
    tol = max(REL_TOL * mag, ABS_FLOOR * _GLOBAL[0])
    return _partclose(ca.real, cb.real, tol) and _partclose(ca.imag, cb.imag, tol)


def _scale(v):
    """largest finite magnitude in a flat list of numbers (vector-wise tolerance)."""
    m = 0.0
    for e in v:
        if _isnum(e):
            c = complex(e)
            a = max(abs(c.real), abs(c.imag))        # no hypot: the parts may be near the float maximum
            if math.isfinite(a) and a > m:
                m = a
    return m


def _global_scale(x):
    m = 0.0
    stack = [x]
    while stack:
        v = stack.pop()
        if isinstance(v, list):
            stack.extend(v)
        elif _isnum(v):
            cv = complex(v)
            for p in (abs(cv.real), abs(cv.imag)):
                if math.isfinite(p) and p > m:
                    m = p
    return m


def diff(a, b, path="", scale=0.0):
    """None when equal (tolerantly); otherwise a short description of the first difference.
    Numbers agree when they differ by at most 1e-9 relative to themselves (or to the vector they sit in), or by
    1e-12 of the largest magnitude anywhere in the two results (a residue 1e-17 next to values of order 1 is zero)."""
    if path == "":
        _GLOBAL[0] = max(_global_scale(a), _global_scale(b))
        try:
            return _diff(a, b, path, scale)
        finally:
            _GLOBAL[0] = 0.0
    return _diff(a, b, path, scale)


def _diff(a, b, path="", scale=0.0):
    if _isnum(a) and _isnum(b):
        return None if _numclose(a, b, scale) else f"{path}: {a!r} != {b!r}"
    if type(a) != type(b):
        # bool vs int etc. are different results
        return f"{path}: {type(a).__name__} {a!r} != {type(b).__name__} {b!r}"[:300]
    if isinstance(a, list):
        if len(a) != len(b):
            return f"{path}: length {len(a)} != {len(b)}"
        sc = scale
        if a and all(_isnum(e) for e in a) and all(_isnum(e) for e in b):
            sc = max(_scale(a), _scale(b))
        for i, (x, y) in enumerate(zip(a, b)):
            d = _diff(x, y, f"{path}[{i}]", sc)
            if d:
                return d
        return None
    if a != b:
        return f"{path}: {a!r} != {b!r}"[:300]
    return None


def rounded(x, sig=10):
    """canonical form with floats rounded to `sig` significant digits (for result digests)."""
    if isinstance(x, bool) or x is None or isinstance(x, (str, int)):
        return x
    if isinstance(x, float):
        if not math.isfinite(x) or x == 0:
            return repr(x) if not math.isfinite(x) else 0.0
        return float(f"{x:.{sig - 1}e}")
    if isinstance(x, complex):
        return [rounded(x.real, sig), rounded(x.imag, sig)]
    if isinstance(x, list):
        return [rounded(e, sig) for e in x]
    return x


def exact_key(x) -> str:
    """repr of a canonical form; equal for bit-identical states (nan prints as nan)."""
    return repr(x)


def to_jsonable(c):
    """canonical form -> JSON-able (for replay / evidence samples)."""
    return json.loads(json.dumps(enc(c)))
