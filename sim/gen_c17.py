"""C17 workload: load / serialise histories over shared description objects and the simulated
file device, judged by the independent element model and the document-store model (O5), O2, O3."""
import copy
from .seed import Streams
from .canon import enc
from . import gen_common as G
from .gen_c20 import _interleave, _place_faults

SEAM_OPS = {"ld.serialize", "ld.deserialize", "ld.dump", "ld.load"}
GROUPS = ["netdesc", "complex", "cirdesc", "roundtrip", "foreign", "inplace", "files", "netfile", "cycles", "reent"]


def plan(seed, overrides=None):
    S = Streams(seed)
    rc = S("config")
    cfg = {
        "clients": rc.randint(2, 4),
        "steps_per_client": rc.randint(2, 7),
        "groups": sorted(rc.sample(GROUPS, rc.randint(2, len(GROUPS)))),
        "degenerate_rate": rc.choice([0.0, 0.1, 0.2]),
        "nest_p": rc.choice([0.0, 0.3, 0.6]),
        "wrap_p": rc.choice([0.0, 0.3, 0.6]),
        "fault_mode": rc.choice(["none", "none", "io", "io", "interrupt", "mixed"]),
        "buffer_size": rc.choice([1, 2, 3, 5, 7, 16, 64, 512, 8192]),
        "formats": rc.choice([["json"], ["yaml"], ["json", "yaml", "yml"]]),
        "mtime_mode": rc.choice(["fine", "fine", "coarse", "frozen"]),
    }
    if overrides:
        cfg.update(overrides)
    rr = S("recipes")
    recipes = {}
    nd = rr.randint(1, 3)
    for i in range(nd):
        recipes[f"desc{i}"] = G.gen_net_description(rr, degenerate=rr.random() < cfg["degenerate_rate"], wide=rr.random() < 0.35)
        recipes[f"cdesc{i}"] = G.gen_cir_description(rr, degenerate=rr.random() < cfg["degenerate_rate"])
        recipes[f"doc{i}"] = G.gen_document_recipe(rr, python_form=True)
        # a twin that serialises to exactly the same number of bytes (only one digit differs)
        # (two digits, at the two ends of the document: a mixture of the two files is neither of them)
        recipes[f"doc{i}"]["v"] = dict([("_aux", 5)] + list(recipes[f"doc{i}"]["v"].items()) + [("_rev", 1)])
        twin = copy.deepcopy(recipes[f"doc{i}"])
        twin["v"]["_rev"] = 2
        twin["v"]["_aux"] = 6
        recipes[f"doc{i}t"] = twin
        recipes[f"ndoc{i}"] = G.gen_document_recipe(rr, python_form=False)
        if rr.random() < 0.25 and "alias" not in recipes[f"ndoc{i}"]:
            recipes[f"ndoc{i}"]["odict"] = True       # notations handed over as OrderedDict (Python API use)
        if rr.random() < 0.2 and "alias" not in recipes[f"desc{i}"]:
            recipes[f"desc{i}"]["odict"] = True
        # documents whose root is a list (or a bare complex number)
        root = "list"      # a bare complex number at the root is not "nested in dictionaries and lists": outside C17
        if root == "list":
            recipes[f"ldoc{i}"] = {"kind": "value", "v": enc([G.gen_document(rr, python_form=True) if rr.random() < 0.5 else G.cx(rr) for _ in range(rr.randint(0, 3))])}
        else:
            recipes[f"ldoc{i}"] = {"kind": "value", "v": enc(G.cx(rr))}
        z = G.cx(rr) * rr.choice([1, 10, 0.01, 1, 10, 0.01, 1e-13, 3.7e-12, 1e-9, 1e9])
        n = G.notation(rr, z, neg_p=0.04)
        if "phase" in n and rr.random() < 0.5:
            import math
            n = {"abs": n["abs"], "phase": n["phase"] * 180 / math.pi}     # meant to be read with degree=True
            recipes[f"z{i}"] = {"kind": "value", "v": enc(n), "deg": True}
        else:
            recipes[f"z{i}"] = {"kind": "value", "v": enc(n)}
        if rr.random() < cfg["degenerate_rate"]:
            recipes[f"z{i}"] = {"kind": "value", "v": enc(rr.choice([{"re": 1, "im": 2}, {"abs": 1}, {"real": 1}, {"phase": 2}]))}
        e = G.gen_cir_entry(rr, rr.choice(["R1", "Vs", "Zä", "x10"]), ["0", "1", "a"])
        if rr.random() < cfg["degenerate_rate"]:
            e.pop(rr.choice(list(e.keys())))
        recipes[f"entry{i}"] = {"kind": "value", "v": enc(e)}
        # Python API use: the numbers of a description come out of numpy (np.int64, np.float32, np.float64, np.complex128)
        if rr.random() < 0.25:
            recipes[f"entry{i}"]["npnum"] = True
        if rr.random() < 0.25 and "alias" not in recipes[f"cdesc{i}"]:
            recipes[f"cdesc{i}"]["npnum"] = True
    world = {"nd": nd, "recipes": recipes, "cfg": cfg}
    counter = [0]
    scripts = [_script(S("client", c), c, world, counter) for c in range(cfg["clients"])]
    steps = _interleave(S("sched"), scripts, cfg, SEAM_OPS)
    _place_faults(S("faults"), steps, cfg)
    return {"property": "C17", "seed": seed, "config": cfg, "recipes": recipes, "steps": steps}


def _script(r, client, world, counter):
    cfg = world["cfg"]
    out = []

    def add(op, a, **kw):
        counter[0] += 1
        s = {"id": f"s{counter[0]}", "client": client, "op": op, "a": a}
        s.update(kw)
        out.append(s)
        return {"h": s["id"]}
    P = lambda n: {"p": n}
    guard = 0
    while len(out) < cfg["steps_per_client"] and guard < 40:
        guard += 1
        g = r.choice(cfg["groups"])
        i = r.randrange(world["nd"])
        fmt = r.choice(cfg["formats"])
        if g == "netdesc":
            add("ld.load_network", {"desc": P(f"desc{i}")})
            if r.random() < 0.6:      # the same object again, possibly by another client in between
                add("ld.load_network", {"desc": P(f"desc{i}")})
        elif g == "complex":
            zrec = world["recipes"][f"z{i}"]
            a = {"z": P(f"z{i}")}
            if zrec.get("deg"):
                a["degree"] = True
            elif r.random() < 0.3:
                a["degree"] = False
            add("ld.to_complex", a)
            if r.random() < 0.6:
                add("ld.to_complex", dict(a))
        elif g == "cirdesc":
            if r.random() < 0.5:
                add("ld.undictify_circuit", {"doc": P(f"cdesc{i}")})
                if r.random() < 0.5:
                    add("ld.undictify_circuit", {"doc": P(f"cdesc{i}")})
            else:
                add("ld.gen_component", {"entry": P(f"entry{i}")})
                if r.random() < 0.5:
                    add("ld.gen_component", {"entry": P(f"entry{i}")})
        elif g == "roundtrip" and r.random() < 0.2:
            t = add("ld.serialize", {"doc": P(f"ldoc{i}"), "fmt": fmt})
            add("ld.deserialize", {"text": t, "fmt": fmt, "expect": P(f"ldoc{i}")})
        elif g == "roundtrip":
            t = add("ld.serialize", {"doc": P(f"doc{i}"), "fmt": "xml" if r.random() < 0.04 else fmt})
            add("ld.deserialize", {"text": t, "fmt": fmt, "expect": P(f"doc{i}")})
            if r.random() < 0.4:      # serialise the same object once more: the first call must not have edited it
                t2 = add("ld.serialize", {"doc": P(f"doc{i}"), "fmt": fmt})
                add("ld.deserialize", {"text": t2, "fmt": fmt, "expect": P(f"doc{i}")})
        elif g == "cycles":
            # a document that was LOADED is written and loaded again, through memory or a file, formats mixed:
            # what comes back from the library must itself survive the library
            if r.random() < 0.6:
                cur = add("ld.deserialize", {"text": {"foreign": P(f"ndoc{i}")}, "fmt": fmt, "expect": P(f"ndoc{i}"), "ascii": r.random() < 0.5})
            else:
                cur = add("ld.undictify_all", {"doc": P(f"ndoc{i}")})
            for _ in range(r.randint(1, 4)):
                f2 = r.choice(cfg["formats"])
                if r.random() < 0.6:
                    t = add("ld.serialize", {"doc": cur, "fmt": f2})
                    cur = add("ld.deserialize", {"text": t, "fmt": f2})
                else:
                    p = r.choice(["cy", "a"]) + "." + f2
                    add("ld.dump", {"path": p, "doc": cur})
                    cur = add("ld.load", {"path": p})
        elif g == "reent":
            # a dict_processor / dump function that itself serialises or dumps another document (side-car file)
            j = r.randrange(world["nd"])
            f2 = r.choice(cfg["formats"])
            counter[0] += 1
            inner = {"id": f"s{counter[0]}", "client": client, "op": r.choice(["ld.serialize", "ld.dump"]), "a": {}}
            if inner["op"] == "ld.serialize":
                inner["a"] = {"doc": P(f"doc{j}t"), "fmt": f2}
            else:
                inner["a"] = {"path": "side." + f2, "doc": P(f"doc{j}t")}
            if r.random() < 0.5:
                t = add("ld.serialize", {"doc": P(f"doc{i}"), "fmt": fmt})
                out[-1]["nested"] = [{"at": 0, "when": r.choice(["before", "after"]), "steps": [inner]}]
                out[-1]["wrap"] = True
                add("ld.deserialize", {"text": t, "fmt": fmt, "expect": P(f"doc{i}")})
            else:
                p = "re." + fmt
                add("ld.dump", {"path": p, "doc": P(f"doc{i}")})
                out[-1]["nested"] = [{"at": 0, "when": r.choice(["before", "after"]), "steps": [inner]}]
                out[-1]["wrap"] = True
                add("ld.load", {"path": p})
        elif g == "foreign":
            add("ld.deserialize", {"text": {"foreign": P(f"ndoc{i}")}, "fmt": fmt, "expect": P(f"ndoc{i}"), "ascii": r.random() < 0.5})
        elif g == "inplace":
            x = r.random()
            if x < 0.2:
                add("ld.undictify_flat", {"doc": P(f"ndoc{i}")})
                add("ld.undictify_flat", {"doc": P(f"ndoc{i}")})
            elif x < 0.35:
                add("ld.dictify_flat", {"doc": P(f"doc{i}")})
                add("ld.dictify_flat", {"doc": P(f"doc{i}")})
            elif r.random() < 0.5:
                add("ld.undictify_all", {"doc": P(f"ndoc{i}")})
                if r.random() < 0.5:
                    add("ld.undictify_all", {"doc": P(f"ndoc{i}")})
            else:
                add("ld.dictify_all", {"doc": P(f"doc{i}")})
                t = add("ld.serialize", {"doc": P(f"doc{i}"), "fmt": fmt})
                add("ld.deserialize", {"text": t, "fmt": fmt, "expect": P(f"doc{i}")})
        elif g == "files":
            path = r.choice(["a", "b", "Ω", "a.b", "x.y.z", "net v2"]) + "." + fmt
            asp = r.random() < 0.3
            k = r.choice(["dump_load", "dump_load", "load", "dump", "put_load", "overwrite"])
            if k == "overwrite":
                j = r.randrange(world["nd"])
                add("ld.dump", {"path": path, "doc": P(f"doc{i}")})
                add("ld.dump", {"path": path, "doc": P(f"doc{j}t")})
                add("ld.load", {"path": path})
            elif k == "dump_load":
                add("ld.dump", {"path": path, "doc": P(f"doc{i}"), "as_path": asp})
                add("ld.load", {"path": path, "as_path": r.random() < 0.3})
                if r.random() < 0.4:      # overwrite with a same-size twin and load again (defeats (mtime, size) caches)
                    add("ld.dump", {"path": path, "doc": P(f"doc{i}t")})
                    add("ld.load", {"path": path})
            elif k == "load":
                add("ld.load", {"path": path})
            elif k == "dump":
                add("ld.dump", {"path": path, "doc": P(f"doc{r.randrange(world['nd'])}" + r.choice(["", "t"]))})
            else:
                p = r.choice(["f", "a"]) + ".json"
                add("fs.put", {"path": p, "doc": P(f"ndoc{i}"), "ascii": r.random() < 0.5, "indent": r.choice([None, 1, 4])})
                add("ld.load", {"path": p})
        elif g == "netfile":
            p = r.choice(["net", "n2"]) + ".json"
            add("fs.put", {"path": p, "doc": P(f"desc{i}"), "ascii": r.random() < 0.5, "indent": r.choice([None, 2])})
            add("ld.load_net_json", {"path": p})
            if r.random() < 0.4:
                add("ld.load_net_json", {"path": p})
    return out
