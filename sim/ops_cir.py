"""Circuit- and signal-level operations (public operations behind C02, C07-C12)."""
import numpy as np

from .engine import op
from .ops_net import _try


def _mods():
    from CircuitCalculator.Circuit import circuit as cc
    from CircuitCalculator.Circuit import solution as cs
    from CircuitCalculator.Circuit import impedance as ci
    from CircuitCalculator.Circuit import state_space_model as cssm
    from CircuitCalculator.Network.NodalAnalysis.bias_point_analysis import nodal_analysis_bias_point_solver as solver
    from CircuitCalculator.SignalProcessing.state_space_model import continuous_state_space_solver as sssolver
    return cc, cs, ci, cssm, solver, sssolver


@op("cir.build", handle=True, snap=True)
def cir_build(ctx, a, seam):
    """a client builds its own circuit object from a description (a parameter sweep builds, analyses and discards
    one circuit per step): unlike the pool objects this one can die"""
    from . import world
    name = a["src"]["p"]
    c = world.build_one(name, ctx.plan["recipes"][name], {})
    if isinstance(c, world.BuildFailed):
        raise ValueError(c.cause)
    return c


@op("cir.transform", handle=True, snap=True)
def cir_transform(ctx, a, seam):
    cc, cs, ci, cssm, solver, sssolver = _mods()
    cir = ctx.arg(a["cir"])
    f = a["f"]
    if f == "transform_circuit":
        kw = {}
        if "w_res" in a:
            kw["w_resolution"] = a["w_res"]
        return cc.transform_circuit(cir, a["w"], **kw)
    if f == "transform":
        if "w" in a:
            return cc.transform(cir, w=ctx.arg(a["w"]))
        ctx.probe("default_arg_path:transform.w")
        return cc.transform(cir)
    raise ValueError(f)


@op("cir.freqs")
def cir_freqs(ctx, a, seam):
    cc, cs, ci, cssm, solver, sssolver = _mods()
    return cc.frequency_components(ctx.arg(a["cir"]), a["w_max"])


@op("cir.props")
def cir_props(ctx, a, seam):
    cir = ctx.arg(a["cir"])
    return [cir.ground_node, [c.id for c in cir.components], _try(lambda: cir[a.get("id", "?")])]


@op("cir.dc", handle=True, seam="solver")
def cir_dc(ctx, a, seam):
    cc, cs, ci, cssm, solver, sssolver = _mods()
    cir = ctx.arg(a["cir"])
    if seam.used:
        return cs.DCSolution(cir, solver=seam.wrap(solver))
    return cs.DCSolution(cir)


@op("cir.cx", handle=True, seam="solver")
def cir_cx(ctx, a, seam):
    cc, cs, ci, cssm, solver, sssolver = _mods()
    cir = ctx.arg(a["cir"])
    kw = {"w": a.get("w", 0), "peak_values": a.get("peak", False)}
    if seam.used:
        kw["solver"] = seam.wrap(solver)
    return cs.ComplexSolution(cir, **kw)


@op("cir.td", handle=True, seam="solver")
def cir_td(ctx, a, seam):
    cc, cs, ci, cssm, solver, sssolver = _mods()
    cir = ctx.arg(a["cir"])
    kw = {"w_max": a.get("w_max", 0)}
    if seam.used:
        kw["solver"] = seam.wrap(solver)
    return cs.TimeDomainSolution(cir, **kw)


@op("cir.fd", handle=True, seam="solver")
def cir_fd(ctx, a, seam):
    cc, cs, ci, cssm, solver, sssolver = _mods()
    cir = ctx.arg(a["cir"])
    kw = {"w_max": a.get("w_max", 0), "one_sided": a.get("one_sided", True)}
    if seam.used:
        kw["solver"] = seam.wrap(solver)
    return cs.FrequencyDomainSolution(cir, **kw)


@op("cir.tran", handle=True, seam="input")
def cir_tran(ctx, a, seam):
    cc, cs, ci, cssm, solver, sssolver = _mods()
    cir = ctx.arg(a["cir"])
    tin = ctx.arg(a["tin"])
    inputs = ctx.arg(a["inputs"])          # shared dict id -> harness-owned u(t)
    if seam.used:
        which = a.get("seam_on", "input")
        if which == "solver":
            return cs.TransientSolution(cir, tin=tin, input=inputs, solver=seam.wrap(sssolver))
        # wrap the input callables *without* touching the shared dict
        wrapped = {k: seam.wrap(f) for k, f in inputs.items()}
        ctx.probe("input_seam_wrapped")
        return cs.TransientSolution(cir, tin=tin, input=wrapped)
    return cs.TransientSolution(cir, tin=tin, input=inputs)


@op("csol.query")
def csol_query(ctx, a, seam):
    sol = ctx.arg(a["sol"])
    return getattr(sol, "get_" + a["q"])(a["id"])


@op("csol.all")
def csol_all(ctx, a, seam):
    """query everything: every node, every component id, four quantities (values, series)"""
    sol = ctx.arg(a["sol"])
    cir = sol.circuit
    nodes = sorted({n for c in cir.components for n in c.nodes})
    out = []
    for n in nodes + ["__unknown__"]:
        out.append(["potential", n, _try(lambda: sol.get_potential(n))])
    for c in [c.id for c in cir.components] + ["__unknown__"]:
        for q in ("voltage", "current", "power"):
            out.append([q, c, _try(lambda: getattr(sol, "get_" + q)(c))])
    if hasattr(sol, "w") and not callable(sol.w):
        out.append(["w", _try(lambda: np.array(sol.w))])
    return out


@op("tdsol.fn", handle=True)
def tdsol_fn(ctx, a, seam):
    sol = ctx.arg(a["sol"])
    return getattr(sol, "get_" + a["q"])(a["id"])


@op("fn.eval")
def fn_eval(ctx, a, seam):
    fn = ctx.arg(a["fn"])
    t = ctx.arg(a["t"])
    return fn(t)


@op("cir.ssm")
def cir_ssm(ctx, a, seam):
    cc, cs, ci, cssm, solver, sssolver = _mods()
    cir = ctx.arg(a["cir"])
    kw = {}
    for k in ("potential_nodes", "voltage_ids", "current_ids"):
        if k in a:
            kw[k] = ctx.arg(a[k])
        else:
            ctx.probe("default_arg_path:" + k)
    return cssm.state_space_model(cir, **kw)


@op("cir.imp")
def cir_imp(ctx, a, seam):
    cc, cs, ci, cssm, solver, sssolver = _mods()
    cir = ctx.arg(a["cir"])
    f = a["f"]
    if f == "open_circuit_impedance":
        if "w" in a:
            return ci.open_circuit_impedance(cir, a["n1"], a["n2"], w=ctx.arg(a["w"]))
        ctx.probe("default_arg_path:impedance.w")
        return ci.open_circuit_impedance(cir, a["n1"], a["n2"])
    if f == "element_impedance":
        if "w" in a:
            return ci.element_impedance(cir, a["id"], w=ctx.arg(a["w"]))
        ctx.probe("default_arg_path:impedance.w")
        return ci.element_impedance(cir, a["id"])
    if f == "open_circuit_dc_resistance":
        return ci.open_circuit_dc_resistance(cir, a["n1"], a["n2"])
    if f == "element_dc_resistance":
        return ci.element_dc_resistance(cir, a["id"])
    raise ValueError(f)


# ---- signals
@op("sig.pf", handle=True, snap=True)
def sig_pf(ctx, a, seam):
    from CircuitCalculator.SignalProcessing.periodic_functions import periodic_function
    from .canon import dec
    return periodic_function(a["wave"])(**dec(a["args"]))


@op("sig.fs")
def sig_fs(ctx, a, seam):
    from CircuitCalculator.SignalProcessing.periodic_functions import fourier_series
    pf = ctx.arg(a["pf"])
    fs = fourier_series(pf)
    out = []
    for n in a["ns"]:
        out.append([_try(lambda: fs.amplitude(n)), _try(lambda: fs.phase(n)), _try(lambda: fs.a(n)),
                    _try(lambda: fs.b(n)), _try(lambda: fs.c(n))])
    return out


@op("sig.tf", handle=True)
def sig_tf(ctx, a, seam):
    return ctx.arg(a["pf"]).time_function


@op("sig.step")
def sig_step(ctx, a, seam):
    from CircuitCalculator.SignalProcessing.one_sided_functions import step
    return step(ctx.arg(a["t"]), a["t0"], a.get("x0", 0), a.get("x1", 1))
