"""Minimisation of a failing plan while the same violation signature persists (DESIGN 3.9)."""
import copy
import json

from . import engine


def signature(v):
    return [v["property"], v["oracle"], v["op"], v.get("sub", ""), v["kind"]]


def has_sig(result, sig):
    return any(signature(v) == sig for v in result["violations"])


def referenced(plan):
    refs = set()

    def walk(v):
        if isinstance(v, dict):
            if "p" in v and len(v) == 1:
                refs.add(v["p"])
            for x in v.values():
                walk(x)
        elif isinstance(v, list):
            for x in v:
                walk(x)
    walk(plan["steps"])
    # keep lists depend on their network
    for name in list(refs):
        r = plan["recipes"].get(name, {})
        if r.get("kind") == "keep":
            refs.add(r["net"])
    return refs


def _without_ids(plan, ids):
    """remove steps (top-level or nested) and, transitively, consumers of their handles"""
    ids = set(ids)
    changed = True
    idx = engine.index_steps(plan)
    while changed:
        changed = False
        for sid, s in idx.items():
            if sid not in ids and any(h in ids for h in engine.consumed_handles(s)):
                ids.add(sid)
                changed = True
    p = copy.deepcopy(plan)

    def filt(steps):
        out = []
        for s in steps:
            if s["id"] in ids:
                continue
            if s.get("nested"):
                nn = []
                for n in s["nested"]:
                    st = filt(n["steps"])
                    if st:
                        nn.append(dict(n, steps=st))
                if nn:
                    s["nested"] = nn
                else:
                    s.pop("nested")
            out.append(s)
        return out
    p["steps"] = filt(p["steps"])
    return p


def _all_ids(plan):
    return list(engine.index_steps(plan).keys())


def shrink(plan, sig, run, budget=400):
    """run(plan) -> result dict with 'violations'.  Returns (smaller plan, executions used)."""
    used = [0]

    def fails(p):
        if used[0] >= budget:
            return False
        used[0] += 1
        try:
            return has_sig(run(p), sig)
        except Exception:
            return False

    cur = plan
    # 1. ddmin over all steps (a removed producer takes its consumers with it)
    ids = _all_ids(cur)
    n = 2
    while len(ids) >= 2 and used[0] < budget:
        chunk = max(1, len(ids) // n)
        removed_any = False
        for i in range(0, len(ids), chunk):
            cand_remove = ids[i:i + chunk]
            cand = _without_ids(cur, cand_remove)
            if len(_all_ids(cand)) < len(_all_ids(cur)) and fails(cand):
                cur = cand
                ids = _all_ids(cur)
                n = max(n - 1, 2)
                removed_any = True
                break
        if not removed_any:
            if chunk == 1:
                break
            n = min(len(ids), n * 2)
    # 2. un-nest: lift nested steps to the top level (before their host)
    p = copy.deepcopy(cur)
    lifted = []
    for s in p["steps"]:
        for nn in s.get("nested", []) or []:
            lifted.extend(nn["steps"])
    if lifted:
        flat = []
        for s in p["steps"]:
            for nn in s.get("nested", []) or []:
                flat.extend(nn["steps"])
            s.pop("nested", None)
            flat.append(s)
        for s in flat:
            s.pop("nested", None)
        p["steps"] = flat
        if fails(p):
            cur = p
    # 3. drop faults and wrappers one at a time
    for sid in _all_ids(cur):
        for key in ("fault", "wrap"):
            p = copy.deepcopy(cur)
            s = engine.index_steps(p)[sid]
            if key in s:
                s.pop(key)
                if fails(p):
                    cur = p
    # 3b. move interrupts to the smallest k that still fails
    for sid in _all_ids(cur):
        s0 = engine.index_steps(cur)[sid]
        if s0.get("fault", {}).get("kind") == "interrupt":
            lo, hi = 1, s0["fault"]["k"]
            while lo < hi and used[0] < budget:
                mid = (lo + hi) // 2
                p = copy.deepcopy(cur)
                engine.index_steps(p)[sid]["fault"]["k"] = mid
                if fails(p):
                    cur, hi = p, mid
                else:
                    lo = mid + 1
    # 4. drop unreferenced recipes
    refs = referenced(cur)
    p = copy.deepcopy(cur)
    p["recipes"] = {k: v for k, v in p["recipes"].items() if k in refs}
    if fails(p):
        cur = p
    # 5. simplify recipes: delete branches / components / entries one at a time
    for name in list(cur["recipes"].keys()):
        r = cur["recipes"][name]
        key = {"network": "branches", "circuit": "components"}.get(r.get("kind"))
        if not key:
            continue
        i = 0
        while i < len(cur["recipes"][name][key]) and used[0] < budget:
            p = copy.deepcopy(cur)
            del p["recipes"][name][key][i]
            if fails(p):
                cur = p
            else:
                i += 1
    # 6. one client
    p = copy.deepcopy(cur)
    for s in engine.index_steps(p).values():
        s["client"] = 0
    if json.dumps(p) != json.dumps(cur) and fails(p):
        cur = p
    return cur, used[0]
